#!/bin/bash
# usage: seed_regress.sh [id-prefix]   re-runs the quick check of each archived seed's property on HEAD + patch
# (scratch worktree of /repo; prints one line per seed: DETECTED / MISSED / NOAPPLY)
export GOFLAGS=-mod=mod GOPROXY=off GOSUMDB=off GOTOOLCHAIN=local
for d in /verif/seeded/${1:-}*/; do
  id=$(basename $d)
  prop=$(python3 -c "import json;print(json.load(open('$d/meta.json'))['property'])")
  W=$(mktemp -d /tmp/seedreg.XXXXXX)
  git -C /repo worktree add -q --detach $W/repo HEAD || { echo "$id ERROR worktree"; continue; }
  rsync -a --exclude .git --include "*/" --include "zz_contracts_verif.go" --exclude "*" /repo/ $W/repo/
  if ! git -C $W/repo apply --whitespace=nowarn $d/patch.diff 2>/dev/null; then
    echo "$id $prop NOAPPLY"
  elif ! (cd $W/repo && go build ./... >/dev/null 2>&1); then
    echo "$id $prop NOBUILD"
  else
    out=$(/verif/bin/govc check --property $prop --tier quick --repo $W/repo --out $W/out 2>&1)
    n=$(echo "$out" | grep -c "^VIOLATION")
    if [ $n -gt 0 ]; then echo "$id $prop DETECTED violations=$n $(echo "$out" | grep "^verdicts:")"; else echo "$id $prop MISSED $(echo "$out" | grep '^property=' )"; fi
  fi
  git -C /repo worktree remove --force $W/repo; rm -rf $W
done
