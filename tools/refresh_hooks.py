#!/usr/bin/env python3
"""Refreshes MANIFEST.hooks.source_commits: every /repo commit whose subject starts with 'verif:'."""
import json, subprocess
m = json.load(open('/verif/MANIFEST.json'))
out = subprocess.check_output(['git', '-C', '/repo', 'log', '--format=%H %s']).decode().splitlines()
commits = [l.split()[0] for l in out if l.split(' ', 1)[1].startswith('verif:')]
m['hooks']['source_commits'] = commits
json.dump(m, open('/verif/MANIFEST.json', 'w'), indent=1)
print(len(commits), 'hook commits')
