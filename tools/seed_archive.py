#!/usr/bin/env python3
"""seed_archive.py <seed-dir> <id> <property> <needs> <detected-by> : copy a confirmed seeded change under /verif/seeded/<id>/"""
import sys, os, shutil, json
src, sid, prop, needs, detected = sys.argv[1:6]
dst = f"/verif/seeded/{sid}"
os.makedirs(dst, exist_ok=True)
for f in ("patch.diff", "demo_test.go", "README.md"):
    if os.path.exists(os.path.join(src, f)):
        shutil.copy(os.path.join(src, f), os.path.join(dst, f))
meta = {
    "id": sid, "property": prop, "origin": "independent sub-agent given only the property text and a scratch worktree",
    "needs_to_manifest": needs,
    "confirmed": "tools/seed_eval.sh: patch applies to /repo HEAD in a scratch worktree, go build ok, 48 baseline tests pass, demo fails with the patch and passes without it",
    "checks_run": f"./bin/govc check --property {prop} --repo <patched worktree>",
    "detected_by": detected,
}
json.dump(meta, open(os.path.join(dst, "meta.json"), "w"), indent=1)
print("archived", dst)
