#!/bin/bash
# Runs the pinned 48-test baseline on a tree (default /repo) and lists the tests that do not pass.
dir=${1:-/repo}
export GOFLAGS=-mod=mod GOPROXY=off GOSUMDB=off GOTOOLCHAIN=local
cd "$dir" && go test -json -vet=off -count=1 -timeout 25m ./... 2>/dev/null > /tmp/baseline_$$.json
python3 - /tmp/baseline_$$.json <<'PY'
import json,sys
base=json.load(open('/root/.vp/BASELINE.json'))['stable_pass']
res={}
for l in open(sys.argv[1]):
    try: e=json.loads(l)
    except: continue
    if e.get('Test') and e.get('Action') in('pass','fail','skip'):
        res[e['Package']+'::'+e['Test']]=e['Action']
bad=[b for b in base if res.get(b)!='pass']
print('baseline: %d of %d pass'%(len(base)-len(bad),len(base)))
for b in bad: print('  NOT PASSING',b,res.get(b))
sys.exit(1 if bad else 0)
PY
rc=$?
rm -f /tmp/baseline_$$.json
exit $rc
