#!/bin/bash
# usage: seed_eval.sh <seed-dir containing patch.diff demo_test.go> <property> [more properties...]
# Confirms a seeded change (applies, builds, baseline passes, demo fails with / passes without) in a scratch
# worktree of /repo, then runs the property checks against the patched tree.
set -u
SEED=$(readlink -f $1); shift
export GOFLAGS=-mod=mod GOPROXY=off GOSUMDB=off GOTOOLCHAIN=local
W=$(mktemp -d /tmp/seedeval.XXXXXX)
git -C /repo worktree add -q --detach $W/repo HEAD || exit 2
rsync -a --exclude .git --include "*/" --include "zz_contracts_verif.go" --exclude "*" /repo/ $W/repo/
cd $W/repo
# where does the demo go?
DEMODIR=$(grep -m1 -oE 'lib/[a-z/]+|reader|types|env|printer|lisperror' $SEED/demo_test.go | head -1)
PKGLINE=$(grep -m1 '^package ' $SEED/demo_test.go | awk '{print $2}')
case "$PKGLINE" in
  lisp|lisp_test) DEMODIR=. ;;
  core) DEMODIR=lib/core ;;
  types) DEMODIR=types ;;
  reader) DEMODIR=reader ;;
  env) DEMODIR=env ;;
  call) DEMODIR=lib/call ;;
  concurrent) DEMODIR=lib/concurrent ;;
esac
cp $SEED/demo_test.go $DEMODIR/zz_seed_demo_test.go
TESTS=$(grep -oE 'func (Test[A-Za-z0-9_]+)' $SEED/demo_test.go | awk '{print $2}' | paste -sd'|')
echo "== demo in $DEMODIR tests: $TESTS"
echo "== without patch:"; go test -vet=off -count=1 -timeout 120s -run "^($TESTS)\$" ./$DEMODIR 2>&1 | tail -3
git apply --whitespace=nowarn $SEED/patch.diff || { echo "PATCH DOES NOT APPLY"; }
echo "== build:"; go build ./... 2>&1 | tail -3
echo "== with patch:"; go test -vet=off -count=1 -timeout 120s -run "^($TESTS)\$" ./$DEMODIR 2>&1 | tail -6
rm -f $DEMODIR/zz_seed_demo_test.go
echo "== baseline with patch:"
go test -json -vet=off -count=1 ./... 2>/dev/null > $W/t.json
python3 - $W/t.json <<'PY'
import json,sys
base=json.load(open('/root/.vp/BASELINE.json'))['stable_pass']
res={}
for l in open(sys.argv[1]):
    try: e=json.loads(l)
    except: continue
    if e.get('Test') and e['Action'] in('pass','fail'):
        res[e['Package']+'::'+e['Test']]=e['Action']
print('baseline not passing:',[b for b in base if res.get(b)!='pass'])
PY
for P in "$@"; do
  echo "== check $P on patched tree:"
  /verif/bin/govc check --property $P --repo $W/repo --out $W/out 2>&1 | grep -E "^VIOLATION|^KNOWN|^property|MACHINERY" | cut -c1-260
done
cd /; git -C /repo worktree remove --force $W/repo; rm -rf $W
