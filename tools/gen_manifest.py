#!/usr/bin/env python3
"""Regenerates /verif/MANIFEST.json from the table below (keeps hooks.source_commits)."""
import json, os

TECH = ("contract-based deductive verification: VCs generated from go/ssa of the working tree (passive form, heap closures, "
        "exact append/capacity model, Houdini-inferred + user loop invariants, modular callee contracts from //@ comment files), "
        "discharged by z3 4.8.12 / z3 5.1.0 / cvc5 1.0.3; counterexample models replayed on the real code with go test -overlay")

CLAIMED = {
 "C02": dict(level="proof", ref="DESIGN.md §4 C02",
   text="Every store-like instruction on a lisp value container (element store, in-place append with exact capacity semantics, copy, map store, delete) in every function of the value-handling packages is proved, for all inputs, heap shapes, capacities and aliasings, to target a container allocated by the same activation. Unbounded; discharged by SMT on VCs generated from go/ssa of the working tree.",
   note="Trusted: go/ssa, the VC generator's heap/append model, z3/cvc5; stub contracts of the standard library; callee frame assumed modularly (each callee is itself checked); escape-before-last-write of a fresh container not tracked; call.call registration closure exempt (embedder action).",
   tech=TECH + "; obligation kind frame/store, zero annotations"),
 "C04": dict(level="proof", ref="DESIGN.md §4 C04",
   text="Every instruction that can panic (index, slice bounds, unchecked type assertion, nil map store, nil dereference, nil function call, explicit panic) in EVAL, eval_ast, do, macroexpand, quasiquote, the scope chain, Apply, the error wrapper, the six recover-protected binder closures and the unwrapped eval builtins is proved unreachable for every AST, scope and heap satisfying the stated data invariant; callee preconditions and the function-value invariant are discharged at every call and construction site.",
   note="Assumes A-ENV (scopes are *env.Env built by the constructors; MalFunc/Func values satisfy the data invariant, which is itself proved at every construction site under contract), stub contracts, the Stepper callback returning one of its four commands; stack exhaustion and non-termination excluded by the statement; builtins are covered through the Func.Fn field contract (wrapper closures recover every panic), not one by one.",
   tech=TECH + "; obligation kinds nopanic/*, pre@callee, typeinv, post"),
 "C05": dict(level="proof", ref="DESIGN.md §4 C05",
   text="tokenize's driver loop, the token cursor, every recursive-descent reader function, Read_str, READ, READWithPreamble and the printer are proved never to panic for every token array (any Value/Type satisfying the assumed scanner contract), with or without placeholder table and environment; termination is proved by decreases obligations: lexicographic (remaining tokens, rank) on the mutual recursion read_form/read_list/..., remaining tokens on read_list's loop, len(str) on the preamble loop.",
   note="A-SCAN (token contract of github.com/jig/scanner, incl. its termination) is assumed, as are the regexp facts stated as at-assumptions in the contract files and the marshaler.HashMap interface contract; byte-level claims rest on A-SCAN; printer termination on acyclic data is by structural recursion (not mechanised).",
   tech=TECH + "; obligation kinds nopanic/*, decreases, pre@callee, post, inv-*"),
 "C14": dict(level="proof", ref="DESIGN.md §4 C14",
   text="types.Equal_Q (the = builtin) is proved, for all pairs of values of any nesting, to return exactly the one-step structural equality EQdef of the statement (sequences element-wise, same key set and equal values for maps, same members for sets, kinds otherwise distinguished, scalars by value) with recursive calls abstracted by the uninterpreted EQ; reflexivity, symmetry and transitivity induction steps, kind separation, list/vector equality and string/keyword/symbol distinctness are proved as lemmas on the specification.",
   note="M-IND/M-STRUCT: the fixpoint reading of EQ and the structural induction that lifts the lemma steps are meta-arguments; reflect.TypeOf is modelled as the dynamic-type tag; finite-map cardinality lemma is a library fact of the VC generator; values are assumed acyclic and unchanged during the comparison.",
   tech=TECH + "; functional post-condition against a spec function, quantified loop invariants, visited-set ghost for map ranges, spec lemmas"),
 "C13": dict(level="proof", ref="DESIGN.md §4 C13",
   text="43 functions behind the collection builtins carry functional post-conditions taken from the statement, README and step files (result kind, length, element-wise or key-wise content, error outside the domain): count, empty?, first, rest, nth, cons, vec, take, take-last, drop, drop-last, subvec, range, get, contains?, keys, vals, assoc, dissoc, conj, merge, concat (0-2 arguments functionally, any count for kind/freshness), seq, hash-map/NewHashMap, set/NewSet, rename-keys, copy helpers and the predicates' helpers are proved for all arguments with quantified loop invariants; apply, map, get-in, assoc-in, update, update-in have thin contracts (kinds, nil cases, error cases) only and are not claimed functionally.",
   note="Normal returns only: a Go panic inside a builtin becomes a lisp error through the binder's wrapper (C04/C20). NewHashMap's value clause is 'some pair with that key' (last-wins proved for assoc/conj only). The anonymous one-line closures registered in Load (list, vector, hash-set, predicates) are covered through the helpers they call, not individually. Callback builtins (map, apply, update*) are thin.",
   tech=TECH + "; functional post-conditions with quantified invariants, visited-set and visited-count ghosts for map ranges, finite-map cardinality lemma"),
 "C20": dict(level="proof", ref="DESIGN.md §4 C20",
   text="Over an abstract reflect (signature facts uninterpreted; Value.Call panics unless the arguments are assignable, else counts one invocation in a ghost counter): _args/_args_ctx panic iff the lisp argument count is outside the window and otherwise build exactly the boxed arguments in order (context first); each of the six wrapper closures never panics, invokes the Go function exactly once iff the count is in the window and reflect accepts the arguments, and otherwise returns a non-nil error; results are mapped by _nil_nil/_nil_error/_result_error as the convention says; at the registration site the accepted window is proved equal to the declared pair or the signature-derived bounds counted in lisp arguments; registration itself can only panic through its explicit validation panics.",
   note="reflect, runtime.FuncForPC().Name() ('pkgpath.func' contains a dot) and fmt/strings calls are stubs; the hyphenated lower-case name derivation and the %w wrapping of a recovered error payload inside fmt.Errorf are not verified; that a wrapper passes _args' result unchanged to Value.Call is visible in the one-line closure bodies, not a separate obligation; nil arguments boxed as the zero MalType is proved only as 'non-nil arguments are boxed by ValueOf'.",
   tech=TECH + "; panics-iff contracts, ghost invocation counter, assert-at obligations at the registration site, panic/recover paths modelled for the deferred _recover"),
 "C09": dict(level="other", ref="DESIGN.md §4 C09",
   text="Partial (the verifier has no interleaving semantics): over a ghost lockset it is proved, for every function of lib/concurrent, that every read of Atom.Val holds Atom.Mutex and every write holds it in write mode, that every path releases what it locked, that no mutex is locked twice by one thread, and that reset!/deref/swap! have the stated sequential effect inside their critical section (reset! installs and returns its argument, deref returns the value, swap! installs and returns the result, an error leaves the lock released). lock/no-call-while-held (no lisp-running call while holding a lock taken by the function) fails for swap! and is a recorded known finding. 'As if one at a time, consistent with real time' follows from these per-thread obligations by the standard lock-atomicity argument, which is not mechanised.",
   note="sync.RWMutex as ghost lockset; M-LOCK meta-argument; swap!'s 'failing update leaves the atom unchanged' relies on Apply not touching an atom whose write lock the caller holds; gensym/memoize are lisp source and outside the verifier; Atom.LispPrint's unlocked read is reported under C11.",
   tech="contract-based deductive verification of the lock discipline over go/ssa VCs (ghost lockset; obligations lock/held-for-access, lock/balance, lock/no-self-deadlock, lock/no-call-while-held; sequential critical-section contracts), z3/cvc5; no interleaving semantics"),
 "C10": dict(level="other", ref="DESIGN.md §4 C10",
   text="Partial (no interleaving semantics): per-thread obligations. Proved: the goroutine started by NewFuture calls Apply exactly once and deposits exactly one outcome on every path (ghost counters); Future.Deref puts back on the same channel exactly the item it received and returns it (chan/redeposit); every store to Done/Cancelled stores true (flag/monotone); when the outcome is sent, from which moment a deref can return, Done is already true (publish/order; this failed on the pinned tree and was fixed); Cancel's sequential contract (no effect and the old Cancelled value on a finished future, both flags set and true returned otherwise). Recorded known findings: Done/Cancelled are accessed from several threads without any synchronisation (race/shared-field, 8 sites).",
   note="Blocking, scheduling and the memory model are not modelled; 'every deref returns the same outcome' and 'never back from true to false' follow from the obligations by an argument over schedules that is not mechanised; the context cancel function is assumed not to touch the future.",
   tech="contract-based deductive verification of per-thread obligations over go/ssa VCs: ghost event counters, chan/redeposit, flag/monotone, publish/order, race/shared-field, sequential contracts; z3/cvc5; no interleaving semantics"),
 "C11": dict(level="other", ref="DESIGN.md §4 C11",
   text="Partial (no interleaving semantics): race-freedom obligations on scopes. Proved for every function of package env: every access to the contents of Env.data holds Env.mu in the right mode or the scope is fresh and unpublished; the *NT methods are only called with the lock held (callee preconditions discharged at every call site, also in the evaluator's packages through C04/C05/C01 runs); Env.mu/data/outer are only assigned on fresh objects; every path releases what it locked; a scope's lock is only held while the lock of a strict ancestor is taken (lock/order with rank = outer-chain depth, which also rules out self-deadlock); the scope constructors return fresh scopes whose outer is the given scope. Recorded known finding: Atom.LispPrint reads Atom.Val without the atom's lock.",
   note="M-NI (non-interference from race-freedom, fresh local scopes, immutable values C02) is a meta-argument; the package-level debugger flags (skip/outing1/outing2, written only under an installed Stepper) are not covered by an obligation; gensym/memoize are lisp source.",
   tech="contract-based deductive verification of the lock discipline over go/ssa VCs (ghost lockset, guarded fields, lock/order by rank, field immutability, fresh-scope post-conditions); z3/cvc5; no interleaving semantics"),
 "C01": dict(level="proof", ref="DESIGN.md §4 C01",
   text="EVAL's tail-recursive loop, eval_ast, do, macroexpand, is_macro_call and Apply are proved, for every form, scope and world, to refine a world-threaded definition of the language written as step relations over abstract outcome functions (value, error, scope world): each way out of an EVAL iteration (every return, every back edge) yields what the definition prescribes for symbols, lists/vectors (elements once, left to right), def (binds in the current scope, returns the value), if (only nil/false falsy, only the selected branch), do (all forms in order, last in tail position), fn (closure over the defining scope), quote, closure application (arguments once, left to right, before binding; body in a scope built from the closure's scope) and builtin application. let: shape errors, new scope first, bindings evaluated sequentially in that scope (loop invariant), tail continuation. Not proved: the outcome of a let body, try (see C03), the order of hash-map literal evaluation.",
   note="Partial correctness against a definition whose scope operations are named by uninterpreted functions (A-WORLD: their relation to env.go is assumed here); callee outcomes including the recursive calls are assumed to be the definition's (A-FIX, one unfolding proved per function); no context expires (A-TIME); builtins are functions of arguments and world (A-FN); Stepper == nil here (C18 removes that).",
   tech="contract-based deductive verification: refinement of step relations by a tail-recursive loop (tailrec clause: relation checked at every return and back edge against the loop-head state), world ghost, decision-tree walk of the relation in an incremental z3 session, VCs from go/ssa, z3 5.1/4.8 and cvc5"),
 "C08": dict(level="proof", ref="DESIGN.md §4 C08",
   text="For every form, scope and world it is proved that no return of EVAL's loop is reachable in a case where the definition continues with another form in tail position (last form of do, let and closure bodies, the selected if branch, a quasiquote expansion, the application of a closure, and whatever macro expansions reduce to these): those cases leave the iteration only through the loop's back edge, whose form, scope and world are proved to be the definition's (step/continue). A back edge of a Go for-loop allocates no frame, so the host stack at the n-th tail iteration does not depend on n.",
   note="Stepper == nil (with a debugger installed EVAL recurses on purpose). The catch handler and finally bodies are not tail positions in the statement and are not claimed. Stack use of non-tail recursion is outside the property.",
   tech="contract-based deductive verification: obligation tco/return-in-tail-position generated from the decision tree of the step relation (tail leaves OUT == evalOut(...) or tail(...) must be unreachable at returns), plus step/continue; z3/cvc5"),
 "C12": dict(level="other", ref="DESIGN.md §4 C12",
   text="Partial. Proved for all forms, scopes and worlds: macroexpand's loop against its step relation (a call whose head symbol is bound, in the caller's scope chain, to a closure flagged as macro is replaced by the result of applying that closure to the UNEVALUATED operands, repeated until the head is no macro; errors propagate); is_macro_call equals the definition's test; every EVAL iteration macro-expands first and evaluates the expansion in the same scope, so a macro call has the outcome of its expansion; defmacro binds a copy flagged as macro; the macroexpand special form returns the expansion unevaluated; quasiquote's result is evaluated in tail position in the same scope. NOT proved: the quasiquote template algebra (quasiquote()/qq_loop are abstract: only no-panic under C04).",
   note="Same assumptions as C01. The library macros (cond, ->, and, or ...) are lisp source and are covered only through the general statement about all macros.",
   tech="contract-based deductive verification: tailrec refinement of mexpStep by macroexpand's loop, functional post-condition of is_macro_call, the defmacro/macroexpand/quasiquote cases of EVAL's step relation; z3/cvc5"),
 "C18": dict(level="proof", ref="DESIGN.md §4 C18",
   text="The step-relation proof of C01 is repeated for EVAL, eval_ast, do and macroexpand WITHOUT the precondition that no Stepper is installed: with an arbitrary callback returning any of its four commands at every consultation, with the skip/outing flags in any state, through the debugger's deferred reports and through the recursion that replaces the loop, every EVAL activation still satisfies the same definition (same value, error and world), for all forms covered by C01.",
   note="A-STEPPER: the callback returns a command and leaves scopes and forms alone (field contract lisp.Stepper); PRINT/fmt.Println in the deferred reports do not touch the world. That the callback receives EVAL's own form and scope is visible at its single call site and is not a separate obligation. try and let bodies as in C01.",
   tech="contract-based deductive verification: the tailrec refinement obligations of C01 generated with the Stepper-free precondition dropped (property-tagged clauses), callback under a field contract; z3/cvc5"),
 "C03": dict(level="other", ref="DESIGN.md §4 C03",
   text="Partial. Proved: the object a catch clause receives (thrownOf: the wrapped value of a LispError, else the error itself) is unchanged by throw (errors as they are, other values wrapped), by lisperror.NewLispError's re-positioning (never re-wraps), is what ErrorValue returns, and is preserved by EVAL when it re-positions a builtin's error; errors propagate unchanged through eval_ast, do, macroexpand, Apply and every special form covered by C01; the empty try form. A genuine defect (handler value evaluated a second time in the handler's scope, finally run in the handler's scope) was found while specifying the form and fixed. NOT proved: the try form itself (body/handler/finally sequencing): its relation (tryStepFull, with cut lemma tryShape) is written in the contract file but needs 10-60 s per case in z3/cvc5, too close to the time-outs to be claimed.",
   note="errors.Is reachability of wrapped Go errors (fmt.Errorf %w in lib/call, NewGoError) is not modelled; the string handed to catch for errors without ErrorValue is abstract (errorString).",
   tech="contract-based deductive verification: functional post-conditions of throw / NewLispError / ErrorValue against thrownOf, thrown-object clause in EVAL's step relation (builtin error case); z3/cvc5"),
 "C16": dict(level="proof", ref="DESIGN.md §4 C16",
   text="For every token array (any length, any nesting) the reader functions read_form, read_list, read_vector, read_hash_map, read_set, read_external, read_atom, read_placeholder are proved to return the error class a token-level grammar prescribes: the distinguished 'expected <closer>, got EOF' error exactly when the tokens run out while a bracket is open, naming the closer of that innermost bracket (the error of a nested form is passed on unchanged by every enclosing list, vector, map, set and reader macro), a different class for stray closers, malformed atoms, odd maps and bad set members, and success with the position just after the form otherwise; repl.multiLine is proved true exactly for the five distinguished messages on LispError values.",
   note="Token level: text -> tokens is the third-party scanner (A-SCAN: brackets inside strings, raw strings and comments are not tokens). The grammar (rfStep/rlC in reader/zz_contracts_verif.go) is the reading of the statement; the statement's own characterisation (completable by appending closers <=> EOF class) is not proved as a lemma over all token sequences. Read_str/READ passing read_form's error through and reporting left-over tokens with another message is visible in the code, not a separate obligation. Go-constructor forms are classified only while their bracket is open. errors.New(s).Error() == s is a stub fact.",
   tech="contract-based deductive verification: abstract fixpoint (rfC/rfP) with checked one-step definition for the mutual recursion, recursive spec functions with a loop invariant for read_list, message-level error model; z3/cvc5"),
}

NA_REASON_WIP = ("check under construction (the contract-based VC engine exists; this property's contracts are not wired yet): "
                 "not claimed until its check is quiet on the unchanged tree and its canaries fail")
NA = {
 "C19": "no Go function within reach of a contract decides it: the delivery routes differ in text layout (third-party scanner), lisp source (load-file header) and REPL framing; see DESIGN.md §5",
}

def main():
    props = [json.loads(l) for l in open('/verif/properties.jsonl')]
    old = json.load(open('/verif/MANIFEST.json')) if os.path.exists('/verif/MANIFEST.json') else {}
    checks = []
    for pid, c in CLAIMED.items():
        checks.append({
            "property_id": pid,
            "quick_cmd": f"./bin/govc check --property {pid} --tier quick",
            "thorough_cmd": f"./bin/govc check --property {pid} --tier thorough",
            "evidence_file": f"/verif/evidence/{pid}.json",
            "replay_cmd_template": "cat {path}",
            "engine": "govc",
            "level_claimed": {"category": c["level"], "text": c["text"], "design_ref": c["ref"]},
            "level_note": c["note"],
            "technique": c["tech"],
        })
    na = [{"property_id": p["id"], "reason": NA.get(p["id"], NA_REASON_WIP)} for p in props if p["id"] not in CLAIMED]
    m = {
        "version": 1,
        "setup_cmd": "cd /verif/engine && GOFLAGS=-mod=vendor GOPROXY=off GOSUMDB=off GOTOOLCHAIN=local go build -o /verif/bin/govc ./cmd/govc",
        "hooks": {"guard": "verif",
                  "enable": "go build -tags verif (comment-only contract files zz_contracts_verif.go in /repo; they add no executable code)",
                  "baseline_off_cmd": "cd /repo && GOFLAGS=-mod=mod GOPROXY=off GOSUMDB=off go test -vet=off -count=1 ./...",
                  "source_commits": old.get("hooks", {}).get("source_commits", []),
                  "add_only": True},
        "engines": [{"name": "govc", "path": "/verif/engine", "serves_properties": sorted(CLAIMED.keys()),
                     "kind_free_text": "self-written VC generator for Go (go/ssa -> SMT-LIB, contracts in //@ comment files) with z3/cvc5 back ends and model replay"}],
        "checks": checks,
        "not_applicable": na,
        "notes": "fix: commits in /repo are listed in /verif/known_findings.json with status fixed.",
    }
    json.dump(m, open('/verif/MANIFEST.json', 'w'), indent=1, ensure_ascii=False)

main()
