package main

// Query construction and solver back ends (z3 4.8.12, z3 5.1.0, cvc5 1.0.3).

import (
	"io"
	"bufio"
	"regexp"
	"runtime"
	"bytes"
	"context"
	"fmt"
	"os"
	"os/exec"
	"path/filepath"
	"strings"
	"sync"
	"sync/atomic"
	"time"
)

type SolverCfg struct {
	TimeoutMs int
	Race      bool // run all back ends
	Scratch   string
	Seed      int
}

var queryCounter int64

var solverNames = []string{"z3-new", "z3", "cvc5"}

func solverCmd(name string, file string, timeoutMs int, seed int) *exec.Cmd {
	switch name {
	case "z3-new":
		return exec.Command("z3-new", fmt.Sprintf("-t:%d", timeoutMs), fmt.Sprintf("smt.random_seed=%d", seed), file)
	case "z3":
		return exec.Command("/usr/bin/z3", fmt.Sprintf("-t:%d", timeoutMs), fmt.Sprintf("smt.random_seed=%d", seed), file)
	case "cvc5":
		return exec.Command("cvc5", fmt.Sprintf("--tlimit=%d", timeoutMs), "--strings-exp", fmt.Sprintf("--seed=%d", seed), file)
	}
	return nil
}

// prelude builds everything before the obligation-specific assertion.
func (tr *Tr) prelude(withCandidates bool) string {
	return tr.preludeFor(withCandidates, nil)
}

// availableTo: a cut (an assertion assumed once checked) serves only the obligations generated after it.
func (a *Assumption) availableTo(o *Obligation) bool {
	return a.MinObl == 0 || o == nil || o.seq >= a.MinObl
}

func (tr *Tr) preludeFor(withCandidates bool, obl *Obligation) string {
	var b strings.Builder
	valOK := tr.valOKDef() // may add predecls and constructors
	b.WriteString("(set-logic ALL)\n")
	b.WriteString(tr.eng.sorts.declarations())
	for _, d := range tr.predecls {
		b.WriteString(d)
		b.WriteByte('\n')
	}
	b.WriteString(valOK)
	for _, d := range tr.decls {
		b.WriteString(d)
		b.WriteByte('\n')
	}
	for _, a := range tr.assumes {
		if a.Term == "true" || a.Term == "" {
			continue
		}
		if a.Candidate && (!a.Alive || !withCandidates) {
			continue
		}
		if !a.availableTo(obl) {
			continue
		}
		fmt.Fprintf(&b, "(assert %s) ; %s\n", a.Term, strings.ReplaceAll(a.Why, "\n", " "))
	}
	return b.String()
}

// ---- path slicing -------------------------------------------------------------------
// An assumption guarded by a reachability symbol that is not an ancestor of the obligation's
// path condition is vacuous on that path; leaving it out is sound (fewer hypotheses) and
// keeps the queries small.

var reachSymRE = regexp.MustCompile(`reach[a-z_]*_[0-9]+`)

type slicer struct {
	defs  map[string][]string // reach symbol -> reach symbols in its definition
	conjD map[string]bool     // the definition is a conjunction (implies each of them)
	memo  map[string]map[string]bool
	heads []string
	glob  []int        // indices of assumptions with no reach guard
	byG   map[int][]string
}

func (tr *Tr) newSlicer() *slicer {
	sl := &slicer{defs: map[string][]string{}, memo: map[string]map[string]bool{}, byG: map[int][]string{}, conjD: map[string]bool{}}
	for _, d := range tr.decls {
		if !strings.HasPrefix(d, "(define-fun reach") {
			continue
		}
		rest := d[len("(define-fun "):]
		i := strings.IndexByte(rest, ' ')
		if i < 0 {
			continue
		}
		name := rest[:i]
		body := rest[i:]
		if j := strings.Index(body, "Bool "); j >= 0 {
			bd := strings.TrimSpace(body[j+5:])
			sl.conjD[name] = !strings.HasPrefix(bd, "(or ") && !strings.HasPrefix(bd, "(ite ")
		}
		for _, r := range reachSymRE.FindAllString(body, -1) {
			if r != name {
				sl.defs[name] = append(sl.defs[name], r)
			}
		}
		if _, ok := sl.defs[name]; !ok {
			sl.defs[name] = nil
		}
	}
	for i, a := range tr.assumes {
		t := a.Term
		if !strings.HasPrefix(t, "(=> ") {
			sl.glob = append(sl.glob, i)
			continue
		}
		// antecedent: first s-expression after "(=> "
		ante := firstSexp(t[4:])
		rs := reachSymRE.FindAllString(ante, -1)
		if len(rs) == 0 {
			sl.glob = append(sl.glob, i)
			continue
		}
		sl.byG[i] = rs
	}
	return sl
}

func firstSexp(s string) string {
	if len(s) == 0 {
		return ""
	}
	if s[0] != '(' {
		if i := strings.IndexAny(s, " )"); i >= 0 {
			return s[:i]
		}
		return s
	}
	d := 0
	for i := 0; i < len(s); i++ {
		switch s[i] {
		case '(':
			d++
		case ')':
			d--
			if d == 0 {
				return s[:i+1]
			}
		}
	}
	return s
}

func (sl *slicer) ancestors(r string) map[string]bool {
	if m, ok := sl.memo[r]; ok {
		return m
	}
	m := map[string]bool{r: true}
	sl.memo[r] = m
	for _, p := range sl.defs[r] {
		for k := range sl.ancestors(p) {
			m[k] = true
		}
	}
	return m
}

// conjuncts: reach symbols implied by r (through conjunctive definitions).
func (sl *slicer) conjuncts(r string, out map[string]bool) {
	if out[r] {
		return
	}
	out[r] = true
	if sl.conjD[r] {
		for _, p := range sl.defs[r] {
			sl.conjuncts(p, out)
		}
	}
}

// relevant: assertions for the obligation with guard g.
func (tr *Tr) relevantAssumes(sl *slicer, g string, withCandidates bool, obl *Obligation) string {
	rs := reachSymRE.FindAllString(g, -1)
	conj := map[string]bool{}
	if !strings.HasPrefix(strings.TrimSpace(g), "(or ") {
		for _, r := range rs {
			sl.conjuncts(r, conj)
		}
	}
	var b strings.Builder
	for i, a := range tr.assumes {
		if a.Term == "true" || a.Term == "" {
			continue
		}
		if a.Candidate && (!a.Alive || !withCandidates) {
			continue
		}
		if !a.availableTo(obl) {
			continue
		}
		if gs, ok := sl.byG[i]; ok && len(rs) > 0 {
			keep := true
			for _, r := range gs {
				if _, known := sl.defs[r]; !known {
					continue
				}
				// r must lie on the way to the obligation: an ancestor of one of the guard's reach
				// symbols (what holds only later on the path cannot help), and comparable with
				// every reach symbol the guard implies
				anc := false
				for _, g0 := range rs {
					if sl.ancestors(g0)[r] {
						anc = true
						break
					}
				}
				if !anc {
					keep = false
					break
				}
				for c := range conj {
					if !sl.ancestors(c)[r] && !sl.ancestors(r)[c] {
						keep = false
						break
					}
				}
				if !keep {
					break
				}
			}
			if !keep {
				continue
			}
		}
		fmt.Fprintf(&b, "(assert %s)\n", a.Term)
	}
	return b.String()
}

func (tr *Tr) declsOnly() string {
	var b strings.Builder
	valOK := tr.valOKDef()
	b.WriteString("(set-logic ALL)\n")
	b.WriteString(tr.eng.sorts.declarations())
	for _, d := range tr.predecls {
		b.WriteString(d)
		b.WriteByte('\n')
	}
	b.WriteString(valOK)
	for _, d := range tr.decls {
		b.WriteString(d)
		b.WriteByte('\n')
	}
	return b.String()
}

type solveResult struct {
	status string // unsat | sat | unknown
	solver string
	ms     int64
	model  string
	raw    string
}

func runSolver(name, query string, cfg *SolverCfg, wantModel bool, id string) solveResult {
	file := filepath.Join(cfg.Scratch, fmt.Sprintf("q%d_%s_%s.smt2", atomic.AddInt64(&queryCounter, 1), id, name))
	q := query
	if name == "cvc5" {
		q = "(set-option :produce-models true)\n" + q
	} else if wantModel {
		q = "(set-option :model true)\n" + q
	}
	os.WriteFile(file, []byte(q), 0o644)
	defer func() {
		if os.Getenv("GOVC_KEEP") == "" {
			os.Remove(file)
		}
	}()
	solverSem <- struct{}{}
	defer func() { <-solverSem }()
	ctx, cancel := context.WithTimeout(context.Background(), time.Duration(cfg.TimeoutMs+3000)*time.Millisecond)
	defer cancel()
	cmd := solverCmd(name, file, cfg.TimeoutMs, cfg.Seed)
	c := exec.CommandContext(ctx, cmd.Path, cmd.Args[1:]...)
	var out bytes.Buffer
	c.Stdout = &out
	c.Stderr = &out
	t0 := time.Now()
	c.Run()
	ms := time.Since(t0).Milliseconds()
	txt := out.String()
	first := strings.TrimSpace(strings.SplitN(txt, "\n", 2)[0])
	res := solveResult{solver: name, ms: ms, raw: txt}
	switch first {
	case "unsat":
		res.status = "unsat"
	case "sat":
		res.status = "sat"
		if i := strings.Index(txt, "\n"); i >= 0 {
			res.model = txt[i+1:]
		}
	default:
		res.status = "unknown"
		if strings.Contains(txt, "error") {
			res.status = "error"
		}
	}
	return res
}

// solve decides one query: tries back ends in order (or races them).
func solve(query string, cfg *SolverCfg, id string, getValues []Term) solveResult {
	q := query + "(check-sat)\n"
	if len(getValues) > 0 {
		q += "(get-value (" + strings.Join(getValues, " ") + "))\n"
	}
	if cfg.Race {
		ch := make(chan solveResult, len(solverNames))
		for _, n := range solverNames {
			go func(n string) { ch <- runSolver(n, q, cfg, len(getValues) > 0, id) }(n)
		}
		var best solveResult
		best.status = "unknown"
		var errTxt string
		for range solverNames {
			r := <-ch
			if r.status == "error" {
				errTxt = r.solver + ": " + firstLines(r.raw, 3)
				continue
			}
			if r.status == "sat" {
				return r // any sat wins (no discharge)
			}
			if r.status == "unsat" && best.status != "unsat" {
				best = r
			}
		}
		if best.status == "unknown" && errTxt != "" {
			best.raw = errTxt
		}
		return best
	}
	var last solveResult
	for _, n := range solverNames {
		r := runSolver(n, q, cfg, len(getValues) > 0, id)
		if r.status == "unsat" || r.status == "sat" {
			return r
		}
		if last.status == "" || r.status == "unknown" {
			last = r
		}
	}
	if last.status == "error" {
		last.status = "unknown"
	}
	return last
}

func firstLines(s string, n int) string {
	ls := strings.Split(s, "\n")
	if len(ls) > n {
		ls = ls[:n]
	}
	return strings.Join(ls, " | ")
}

// discharge checks all obligations of tr (Houdini for candidates first).
func (tr *Tr) discharge(cfg *SolverCfg, workers int, keep func(o *Obligation) bool) {
	tr.indexObls()
	// Houdini
	round := 0
	for {
		round++
		pre := tr.prelude(true)
		var cands []*Obligation
		for _, o := range tr.obls {
			if o.Cand != nil && o.Cand.Alive {
				cands = append(cands, o)
			}
		}
		if len(cands) == 0 {
			break
		}
		ccfg := *cfg
		if ccfg.TimeoutMs > 3000 {
			ccfg.TimeoutMs = 3000
		}
		ccfg.Race = false
		sl := tr.newSlicer()
		decls := tr.declsOnly()
		_ = pre
		as := make([]string, len(cands))
		for i, o := range cands {
			as[i] = tr.relevantAssumes(sl, o.Guard, true, o) + fmt.Sprintf("(assert (and %s (not %s)))\n", o.Guard, o.Goal)
		}
		t0 := time.Now()
		br := solveBatch(decls, as, &ccfg, 2000, fmt.Sprintf("h%d", round))
		for i, o := range cands {
			o.Result, o.Solver, o.TimeMs = br[i], "z3-new", time.Since(t0).Milliseconds()/int64(len(cands)+1)
			if o.Result == "" {
				o.Result = "unknown"
			}
		}
		dropped := false
		for _, o := range cands {
			if o.Result != "unsat" && o.Cand.Alive {
				o.Cand.Alive = false
				dropped = true
			}
		}
		if !dropped || round > 12 {
			break
		}
	}
	pre := tr.prelude(true)
	// vacuity guard: the assumptions (requires, stub contracts, invariants) must be satisfiable
	{
		ccfg := *cfg
		ccfg.Race = false
		if ccfg.TimeoutMs > 5000 {
			ccfg.TimeoutMs = 5000
		}
		r := solveFast(pre, &ccfg, "cover")
		tr.coverResult = r.status
	}
	var todo []*Obligation
	for _, o := range tr.obls {
		if o.Cand != nil {
			continue
		}
		if keep != nil && !keep(o) {
			continue
		}
		todo = append(todo, o)
	}
	// first pass: incremental batches; whatever is not unsat is retried standalone below
	sl := tr.newSlicer()
	decls := tr.declsOnly()
	if true { // the incremental batch first in every tier; what it leaves is raced (thorough) or retried standalone
		as := make([]string, len(todo))
		for i, o := range todo {
			as[i] = tr.relevantAssumes(sl, o.Guard, true, o) + fmt.Sprintf("(assert (and %s (not %s)))\n", o.Guard, o.Goal)
		}
		t0 := time.Now()
		bt := cfg.TimeoutMs
		if bt > 4000 {
			bt = 4000
		}
		br := solveBatch(decls, as, cfg, bt, "main")
		per := time.Since(t0).Milliseconds() / int64(len(todo)+1)
		var rest []*Obligation
		for i, o := range todo {
			if br[i] == "unsat" {
				o.Result, o.Solver, o.TimeMs = "unsat", "z3-new", per
			} else {
				rest = append(rest, o)
				if os.Getenv("GOVC_TIMING") != "" {
					fmt.Fprintf(os.Stderr, "slow-or-failing (not discharged in the %d ms batch): %s\n", bt, o.Name)
				}
			}
		}
		todo = rest
	}
	// dead paths: an obligation whose path condition the assumptions refute is discharged
	// vacuously; those are listed (a path may be legitimately dead under a precondition, or the
	// model may be wrong about it)
	if os.Getenv("GOVC_NODEAD") == "" {
		var guards []string
		seenG := map[string]bool{}
		for _, o := range tr.obls {
			if o.Cand != nil || (keep != nil && !keep(o)) || o.Guard == "true" || seenG[o.Guard] {
				continue
			}
			seenG[o.Guard] = true
			guards = append(guards, o.Guard)
		}
		as := make([]string, len(guards))
		for i, g := range guards {
			as[i] = tr.relevantAssumes(sl, g, true, nil) + fmt.Sprintf("(assert %s)\n", g)
		}
		dt := 700
		br := solveBatch(decls, as, cfg, dt, "dead")
		dead := map[string]bool{}
		for i, g := range guards {
			if br[i] == "unsat" {
				dead[g] = true
			}
		}
		for _, o := range tr.obls {
			if dead[o.Guard] {
				o.Dead = true
			}
		}
	}
	runPool(todo, workers, func(i int, o *Obligation) {
		if o.Tree != nil {
			if o.fullGoal == "" {
				o.fullGoal = o.Goal
			}
			o.Goal = o.fullGoal
			// decide the relation branch by branch in one incremental session
			w := walkTree(decls+tr.relevantAssumes(sl, o.Guard, true, o), o.Guard, o.Tree, cfg, fmt.Sprintf("o%d_%d", i, os.Getpid()))
			if os.Getenv("GOVC_TIMING") != "" {
				fmt.Fprintf(os.Stderr, "walk %s: %s checks=%d leaves=%d %dms %s %s\n", o.Name, w.status, w.checks, o.Tree.leaves(), w.ms, w.note, clip(w.failing, 1500))
			}
			if w.status == "unsat" {
				o.Result, o.Solver, o.TimeMs = "unsat", fmt.Sprintf("z3-new(walk:%d)", w.checks), w.ms
				return
			}
			if w.failing != "" {
				// continue below with the one case that was not proved (models, other back ends)
				o.Goal = w.failing
			}
		}
		q := decls + tr.relevantAssumes(sl, o.Guard, true, o) + fmt.Sprintf("(assert (and %s (not %s)))\n", o.Guard, o.Goal)
		var gv []Term
		r := solve(q, cfg, fmt.Sprintf("o%d_%d", i, os.Getpid()), gv)
		if r.status != "unsat" && r.status != "sat" && atomic.AddInt64(&tr.escalations, 1) <= 6 {
			// no answer within the limit from any back end: once more with three times the limit
			// (at most six obligations per function, so a broken tree does not take forever)
			big := *cfg
			big.TimeoutMs = cfg.TimeoutMs * 3
			if r2 := runSolver("z3-new", q+"(check-sat)\n", &big, false, fmt.Sprintf("e%d_%d", i, os.Getpid())); r2.status == "unsat" || r2.status == "sat" {
				r2.ms += r.ms
				r = r2
			}
		}
		o.Result, o.Solver, o.TimeMs, o.Model = r.status, r.solver, r.ms, r.model
		if r.status != "unsat" && r.status != "sat" {
			o.Model = r.raw
		}
	})
}

// solveFast: z3-new only, then z3 on unknown.
func solveFast(q string, cfg *SolverCfg, id string) solveResult {
	q += "(check-sat)\n"
	r := runSolver("z3-new", q, cfg, false, id)
	if r.status == "unsat" || r.status == "sat" {
		return r
	}
	r2 := runSolver("z3", q, cfg, false, id)
	if r2.status == "unsat" || r2.status == "sat" {
		return r2
	}
	return r
}

func runPool[T any](items []T, workers int, f func(i int, it T)) {
	if workers < 1 {
		workers = 1
	}
	var wg sync.WaitGroup
	ch := make(chan int)
	for w := 0; w < workers; w++ {
		wg.Add(1)
		go func() {
			defer wg.Done()
			for i := range ch {
				f(i, items[i])
			}
		}()
	}
	for i := range items {
		ch <- i
	}
	close(ch)
	wg.Wait()
}

// solveBatch decides many queries that share one prelude with incremental z3 processes
// (push/pop); anything not answered unsat is left for a standalone retry by the caller.
func solveBatch(pre string, asserts []string, cfg *SolverCfg, timeoutMs int, tag string) []string {
	res := make([]string, len(asserts))
	if len(asserts) == 0 {
		return res
	}
	chunks := runtimeNumCPU()
	if chunks > len(asserts) {
		chunks = len(asserts)
	}
	per := (len(asserts) + chunks - 1) / chunks
	var wg sync.WaitGroup
	for ci := 0; ci < chunks; ci++ {
		lo, hi := ci*per, (ci+1)*per
		if lo >= len(asserts) {
			break
		}
		if hi > len(asserts) {
			hi = len(asserts)
		}
		wg.Add(1)
		go func(lo, hi int) {
			defer wg.Done()
			var b strings.Builder
			b.WriteString(pre)
			for i := lo; i < hi; i++ {
				fmt.Fprintf(&b, "(push 1)\n%s(check-sat)\n(pop 1)\n", asserts[i])
			}
			file := filepath.Join(cfg.Scratch, fmt.Sprintf("b%d_%s_%d.smt2", atomic.AddInt64(&queryCounter, 1), tag, lo))
			os.WriteFile(file, []byte(b.String()), 0o644)
			defer func() {
				if os.Getenv("GOVC_KEEP") == "" {
					os.Remove(file)
				}
			}()
			solverSem <- struct{}{}
			defer func() { <-solverSem }()
			ctx, cancel := context.WithTimeout(context.Background(), time.Duration((hi-lo)*(timeoutMs+200)+5000)*time.Millisecond)
			defer cancel()
			c := exec.CommandContext(ctx, "z3-new", fmt.Sprintf("-t:%d", timeoutMs), fmt.Sprintf("smt.random_seed=%d", cfg.Seed), file)
			var out bytes.Buffer
			c.Stdout = &out
			c.Stderr = &out
			c.Run()
			lines := strings.Split(out.String(), "\n")
			k := lo
			for _, ln := range lines {
				ln = strings.TrimSpace(ln)
				if ln == "sat" || ln == "unsat" || ln == "unknown" || strings.HasPrefix(ln, "(error") || ln == "timeout" {
					if k < hi {
						if ln == "sat" || ln == "unsat" {
							res[k] = ln
						} else {
							res[k] = "unknown"
						}
						k++
					}
				}
			}
		}(lo, hi)
	}
	wg.Wait()
	return res
}

func runtimeNumCPU() int { return runtime.NumCPU() }

// ---- decision-tree walk --------------------------------------------------------------
// A goal kept as a decision tree (GoalTree) is proved one condition at a time in a single
// incremental solver session: a condition the path refutes (or forces) prunes the other
// branch; where both outcomes are possible both branches are proved under the respective
// condition. Every leaf reached must be proved: same meaning as proving the whole relation.

type walkResult struct {
	status  string // unsat (all reachable leaves proved) | sat | unknown
	checks  int
	failing Term // for sat/unknown: (=> conds leaf) of the leaf that was not proved
	ms      int64
	note    string
	escalated int // leaves retried with three times the time limit
}

func walkTree(pre string, guard Term, tree *GoalTree, cfg *SolverCfg, id string) walkResult {
	t0 := time.Now()
	res := walkResult{status: "unknown"}
	solverSem <- struct{}{}
	defer func() { <-solverSem }()
	per := cfg.TimeoutMs
	if per < 3000 {
		per = 3000
	}
	deadline := t0.Add(time.Duration(cfg.TimeoutMs*20) * time.Millisecond)
	ctx, cancel := context.WithDeadline(context.Background(), deadline.Add(5*time.Second))
	defer cancel()
	c := exec.CommandContext(ctx, "z3-new", "-in", fmt.Sprintf("smt.random_seed=%d", cfg.Seed))
	stdin, err := c.StdinPipe()
	if err != nil {
		res.note = err.Error()
		return res
	}
	stdout, err := c.StdoutPipe()
	if err != nil {
		res.note = err.Error()
		return res
	}
	c.Stderr = nil
	if err := c.Start(); err != nil {
		res.note = err.Error()
		return res
	}
	defer func() {
		stdin.Close()
		c.Process.Kill()
		c.Wait()
	}()
	rd := bufio.NewReaderSize(stdout, 1<<16)
	var log strings.Builder
	send := func(s string) {
		if os.Getenv("GOVC_KEEP") != "" {
			log.WriteString(s)
		}
		io.WriteString(stdin, s)
	}
	send(fmt.Sprintf("(set-option :timeout %d)\n", per))
	send(pre)
	send(fmt.Sprintf("(assert %s)\n", guard))
	curTO := per
	check := func(extra []Term, to int) string {
		if time.Now().After(deadline) {
			return "unknown"
		}
		res.checks++
		var b strings.Builder
		if to != curTO {
			fmt.Fprintf(&b, "(set-option :timeout %d)\n", to)
			curTO = to
		}
		b.WriteString("(push)\n")
		for _, x := range extra {
			fmt.Fprintf(&b, "(assert %s)\n", x)
		}
		b.WriteString("(check-sat)\n(pop)\n")
		send(b.String())
		tc := time.Now()
		defer func() {
			if os.Getenv("GOVC_TIMING") != "" {
				res.note += fmt.Sprintf(" %d", time.Since(tc).Milliseconds())
			}
		}()
		for {
			line, err := rd.ReadString('\n')
			if err != nil {
				return "unknown"
			}
			line = strings.TrimSpace(line)
			switch line {
			case "sat", "unsat", "unknown":
				return line
			case "":
				continue
			}
			if strings.HasPrefix(line, "(error") {
				res.note = line
				// the answer line still follows for check-sat errors only sometimes: treat as unknown
				if strings.Contains(line, "check-sat") {
					return "unknown"
				}
			}
		}
	}
	var walk func(n *GoalTree, conds []Term) string
	walk = func(n *GoalTree, conds []Term) string {
		if n.A == nil {
			r := check(append(append([]Term{}, conds...), Not(n.Leaf)), per)
			if r == "unknown" {
				// a leaf that runs into the time limit is tried once more with three times the
				// limit before the obligation is given up (a loaded machine must not turn a proof
				// that needs most of the limit into an alarm)
				res.escalated++
				r = check(append(append([]Term{}, conds...), Not(n.Leaf)), per*3)
			}
			if r != "unsat" {
				res.failing = Implies(And(conds...), n.Leaf)
			}
			return r
		}
		// (conditions that can go either way are satisfiable queries: give up on those early)
		if r := check(append(append([]Term{}, conds...), n.Cond), 1500); r == "unsat" {
			return walk(n.B, conds)
		}
		if r := check(append(append([]Term{}, conds...), Not(n.Cond)), 1500); r == "unsat" {
			return walk(n.A, conds)
		}
		if r := walk(n.A, append(append([]Term{}, conds...), n.Cond)); r != "unsat" {
			return r
		}
		return walk(n.B, append(append([]Term{}, conds...), Not(n.Cond)))
	}
	res.status = walk(tree, nil)
	res.ms = time.Since(t0).Milliseconds()
	if os.Getenv("GOVC_KEEP") != "" {
		os.WriteFile(filepath.Join(cfg.Scratch, fmt.Sprintf("w%d_%s.smt2", atomic.AddInt64(&queryCounter, 1), id)), []byte(log.String()), 0o644)
	}
	return res
}

// indexObls numbers the obligations in generation order (1-based).
func (tr *Tr) indexObls() {
	for i, o := range tr.obls {
		o.seq = i + 1
	}
}
