package main

// C15 (bounded): placeholder substitution through the preamble transport.

const c15Harness = `package lisp_test

import (
	"fmt"
	"os"
	"sort"
	"strconv"
	"strings"
	"testing"

	. "github.com/jig/lisp"
	"github.com/jig/lisp/env"
	"github.com/jig/lisp/reader"
	"github.com/jig/lisp/types"
)

// structural equality written from the statement (independent of the interpreter's =)
func c06eq(a, b types.MalType) bool {
	switch x := a.(type) {
	case nil:
		return b == nil
	case bool:
		y, ok := b.(bool)
		return ok && x == y
	case int:
		y, ok := b.(int)
		return ok && x == y
	case string:
		y, ok := b.(string)
		return ok && x == y
	case types.Symbol:
		y, ok := b.(types.Symbol)
		return ok && x.Val == y.Val
	case types.List:
		y, ok := b.(types.List)
		return ok && c06seq(x.Val, y.Val)
	case types.Vector:
		y, ok := b.(types.Vector)
		return ok && c06seq(x.Val, y.Val)
	case types.HashMap:
		y, ok := b.(types.HashMap)
		if !ok || len(x.Val) != len(y.Val) {
			return false
		}
		for k, v := range x.Val {
			w, ok := y.Val[k]
			if !ok || !c06eq(v, w) {
				return false
			}
		}
		return true
	case types.Set:
		y, ok := b.(types.Set)
		if !ok || len(x.Val) != len(y.Val) {
			return false
		}
		for k := range x.Val {
			if _, ok := y.Val[k]; !ok {
				return false
			}
		}
		return true
	}
	return false
}

func c06seq(a, b []types.MalType) bool {
	if len(a) != len(b) {
		return false
	}
	for i := range a {
		if !c06eq(a[i], b[i]) {
			return false
		}
	}
	return true
}

func c06desc(v types.MalType) string {
	switch x := v.(type) {
	case nil:
		return "nil"
	case string:
		return "string" + strconv.Quote(x)
	case types.Symbol:
		return "symbol" + strconv.Quote(x.Val)
	case types.List:
		s := "list("
		for _, e := range x.Val {
			s += c06desc(e) + ","
		}
		return s + ")"
	case types.Vector:
		s := "vector["
		for _, e := range x.Val {
			s += c06desc(e) + ","
		}
		return s + "]"
	case types.HashMap:
		keys := []string{}
		for k := range x.Val {
			keys = append(keys, k)
		}
		sort.Strings(keys)
		s := "map{"
		for _, k := range keys {
			s += strconv.Quote(k) + ":" + c06desc(x.Val[k]) + ","
		}
		return s + "}"
	case types.Set:
		keys := []string{}
		for k := range x.Val {
			keys = append(keys, k)
		}
		sort.Strings(keys)
		s := "set{"
		for _, k := range keys {
			s += strconv.Quote(k) + ","
		}
		return s + "}"
	}
	return fmt.Sprintf("%T(%v)", v, v)
}

func TestGovcBounded(t *testing.T) {
	ns := env.NewEnv()
	kw := func(s string) string { return "ʞ" + s }
	values := []types.MalType{nil, true, false, 0, -7, 42, "", "a", "x y", "\"", "\\", "a\nb", "a\tb", ";", ";; $b 5", "\n;; $b 5\n", "(", ")", "[1 2", "$b", "$a", "¬", "¬¬", "ʞ", "'",
		"{\"a\"}", "{\"k\":\"v\"}", "{\"a\nb\"}", "{\"a\": 1,\n \"b\": 2}", "{\"¬\"}", "{\";; $b 5\"}",
		kw("a"), kw("a-b"), types.Symbol{Val: "s"}, types.Symbol{Val: "+"},
		types.List{}, types.Vector{}, types.List{Val: []types.MalType{1, "a", types.Symbol{Val: "s"}}}, types.Vector{Val: []types.MalType{"a\nb", kw("k")}},
		types.List{Val: []types.MalType{types.Symbol{Val: "quote"}, types.Symbol{Val: "x"}}},
		types.HashMap{Val: map[string]types.MalType{"k": 1}}, types.HashMap{Val: map[string]types.MalType{kw("k"): "v", "a b": nil}}, types.HashMap{Val: map[string]types.MalType{"j": "{\"a\nb\"}"}},
		types.Set{Val: map[string]struct{}{"a": {}, kw("b"): {}}},
		types.List{Val: []types.MalType{types.Vector{Val: []types.MalType{1, types.List{Val: []types.MalType{"deep", "{\"x\"}"}}}}}},
	}
	if os.Getenv("VERIF_TIER") == "thorough" {
		alpha := []string{"a", "\"", "\\", "\n", "¬", "{", "}", " ", ";", "$"}
		for _, c1 := range alpha {
			for _, c2 := range alpha {
				values = append(values, c1+c2, "{\""+c1+c2+"}")
				for _, c3 := range alpha {
					values = append(values, c1+c2+c3)
				}
			}
		}
	}
	sources := []string{
		"$a",
		"(list $a)",
		"(list $a $a)",
		"[$a 1]",
		"{:k $a}",
		"'$a",
		"(do (def x $a) x)",
		"(list \"$a\" $a)",
		"(list $a) ;; $a in a comment",
		";; first a comment\n(list $a)",
		"(list $a\n      $b-1)",
		"(list $b-1 $a $x_y)",
		"(list $a $missing)",
		"(str \"no placeholder here\")",
		"#{$a}",
		// sources that themselves begin like a preamble, with blank lines, or with layout that matters
		";; $a 1\n(list $a)",
		";; $DEBUG true\n(list $a $DEBUG)",
		";; $a is the input of this program\n$a",
		"\n\n(list $a)",
		"   (list $a)",
		"(list ¬  two\n   lines¬ $a)",
	}
	names := []string{"$a", "$b-1", "$x_y"}
	cases, distinct := 0, 0
	multiLine, multiLineFirst := 0, ""
	seen := map[string]bool{}
	check := func(src string, m map[string]types.MalType) {
		cases++
		desc := strconv.Quote(src) + " with"
		keys := []string{}
		for k := range m {
			keys = append(keys, k)
		}
		sort.Strings(keys)
		for _, k := range keys {
			desc += " " + k + "=" + c06desc(m[k])
		}
		if !seen[desc] {
			seen[desc] = true
			distinct++
		}
		if cases%211 == 1 {
			fmt.Printf("BOUNDED-SAMPLE %s\n", desc)
		}
		table := &types.HashMap{Val: map[string]types.MalType{}}
		for k, v := range m {
			table.Val[k] = v
		}
		want, werr := reader.Read_str(src, types.NewCursorFile("c15"), table, ns)
		text, aerr := AddPreamble(src, m)
		if aerr != nil {
			fmt.Printf("BOUNDED-FAIL transport/%s :: AddPreamble fails: %v\n", desc, aerr)
			return
		}
		got, gerr := READWithPreamble(text, types.NewCursorFile("c15"), ns)
		bad := ""
		switch {
		case (werr == nil) != (gerr == nil):
			bad = fmt.Sprintf("direct substitution gives (%s, err=%v) but the transported text %s reads as (%s, err=%v)", c06desc(want), werr, strconv.Quote(text), c06desc(got), gerr)
		case werr == nil && !c06eq(want, got):
			bad = fmt.Sprintf("direct substitution gives %s but the transported text %s reads as %s", c06desc(want), strconv.Quote(text), c06desc(got))
		}
		if bad == "" {
			return
		}
		// one class of inputs is reported under one name: some value prints on several lines
		for _, v := range m {
			if strings.Contains(PRINT(v), "\n") {
				multiLine++
				if multiLine == 1 {
					multiLineFirst = desc + " :: " + bad
				}
				return
			}
		}
		fmt.Printf("BOUNDED-FAIL transport/%s :: %s\n", desc, bad)
	}
	for _, src := range sources {
		check(src, map[string]types.MalType{})
		for _, v := range values {
			check(src, map[string]types.MalType{"$a": v})
		}
	}
	// two and three names at once (order of the preamble lines is the map's)
	for i, v := range values {
		w := values[(i*7+3)%len(values)]
		u := values[(i*11+5)%len(values)]
		for _, src := range []string{"(list $a $b-1)", "(list $b-1 $a $x_y)", "[$x_y $a]"} {
			check(src, map[string]types.MalType{names[0]: v, names[1]: w})
			check(src, map[string]types.MalType{names[0]: v, names[1]: w, names[2]: u})
		}
	}
	if multiLine > 0 {
		fmt.Printf("BOUNDED-FAIL transport/value-printed-on-several-lines :: %d cases in which a transported value prints with a line break (PRINT uses the raw form, which keeps real newlines, for JSON-looking strings); first: %s\n", multiLine, multiLineFirst)
	}
	fmt.Printf("BOUNDED-CASES %d %d\n", cases, distinct)
}
`

func init() {
	register(&Property{
		ID: "C15", Level: "exploration",
		Technique: "BOUNDED stand-in (not a proof; the contract-based verifier cannot reach this property: the transport goes through PRINT's escape codec, a regular expression, line splitting and the third-party scanner): the real AddPreamble and READWithPreamble are run, through a test injected with go test -overlay, on 21 source shapes (placeholders in code, quoted data, collections, strings, comments, several lines, a missing name, sources that begin with preamble-looking comment lines, blank lines or indentation, a multi-line raw string) crossed with 45 data values (scalars, strings with quotes, backslashes, newlines, tabs, semicolons, brackets, preamble-looking lines, the raw-string quote, JSON-looking single- and multi-line strings that print in raw form, keywords, symbols, nested collections; every string of length 2-3 over a 10-character alphabet in the thorough tier) for one, two and three names; the AST is compared with reader.Read_str(source, table) by an independent structural equality",
		DesignRef: "DESIGN.md §4 C15",
		Explain:   "bounded: exhaustive over the stated family only; says nothing beyond it",
		Run:       runC15,
	})
}

func runC15(c *CheckCtx) {
	c.runBounded("", c15Harness, "21 source texts x (no value, each of 45 values for $a) plus 3 multi-name sources x 45 value triples (quick); the thorough tier adds every string of length 2-3 over {a \" \\ newline ¬ { } space ; $} and their JSON-looking variants as values; distinct = distinct (source, assignment) pairs; non-trivial = every case (each is transported, read on both routes and compared)", true)
	c.assumptions["bounded stand-in: nothing is claimed outside the enumerated family"] = true
}
