package main

// Property definitions.

import (
	"strings"

	"golang.org/x/tools/go/ssa"
)

var valuePkgs = []string{"", "/types", "/env", "/lib/core", "/lib/call", "/lib/concurrent", "/lnotation", "/reader", "/printer", "/lisperror"}

func init() {
	register(&Property{
		ID: "C02", Level: "proof", Technique: "contract-based deductive verification: zero-annotation frame/store obligations over go/ssa with exact append/capacity semantics, discharged by z3/cvc5",
		DesignRef: "DESIGN.md §4 C02",
		Explain: "every store-like instruction (element store, in-place append, copy, map store, delete) on a lisp value container in every function of the value-handling packages must target a container allocated by the same activation (or one named in an assigns clause)",
		Run:     runC02,
	})
}

func runC02(c *CheckCtx) {
	fns := c.funcsIn(valuePkgs...)
	rootSet := map[*ssa.Function]bool{}
	for _, f := range fns {
		rootSet[f] = true
	}
	var jobs []*Job
	for _, f := range fns {
		if exemptC02(f) {
			c.note("exempt from the C02 frame: " + fnName(f) + " (registration-time update of the _PACKAGES_ map by the embedder, not a builtin/special form)")
			continue
		}
		jobs = append(jobs, &Job{Fn: f, PanicMode: "ignore", Frame: true, IsRoot: func(fn *ssa.Function) bool { return rootSet[fn] && fn.Parent() == nil }})
	}
	c.runJobs(jobs, func(o *Obligation) bool { return o.Kind == "frame/store" })
	c.assumptions["reference objects (Atom.Val, Env.data, Future fields, tokenReader) are not lisp values and are exempt by the property statement"] = true
	c.assumptions["A-ESCAPE: a container allocated in the current activation may be written until the activation returns (escape before the last write is not tracked)"] = true
}

func exemptC02(f *ssa.Function) bool {
	n := f.String()
	return strings.Contains(n, "lib/call.call$") && f.Parent() != nil && f.Parent().Name() == "call" && strings.HasSuffix(n, "$7")
}
