package main

// Property definitions.

import (
	"fmt"
	"sort"
	"strings"

	"golang.org/x/tools/go/ssa"
)

var valuePkgs = []string{"", "/types", "/env", "/lib/core", "/lib/call", "/lib/concurrent", "/lnotation", "/reader", "/printer", "/lisperror"}

func init() {
	register(&Property{
		ID: "C02", Level: "proof", Technique: "contract-based deductive verification: zero-annotation frame/store obligations over go/ssa with exact append/capacity semantics, discharged by z3/cvc5",
		DesignRef: "DESIGN.md §4 C02",
		Explain: "every store-like instruction (element store, in-place append, copy, map store, delete) on a lisp value container in every function of the value-handling packages must target a container allocated by the same activation (or one named in an assigns clause)",
		Run:     runC02,
	})
}

func runC02(c *CheckCtx) {
	fns := c.funcsIn(valuePkgs...)
	rootSet := map[*ssa.Function]bool{}
	for _, f := range fns {
		rootSet[f] = true
	}
	var jobs []*Job
	for _, f := range fns {
		if exemptC02(f) {
			c.note("exempt from the C02 frame: " + fnName(f) + " (registration-time update of the _PACKAGES_ map by the embedder, not a builtin/special form)")
			continue
		}
		jobs = append(jobs, &Job{Fn: f, PanicMode: "ignore", Frame: true, NoUserInv: true, NoContracts: true, IsRoot: func(fn *ssa.Function) bool { return rootSet[fn] && fn.Parent() == nil }})
	}
	c.runJobs(jobs, func(o *Obligation) bool { return o.Kind == "frame/store" })
	c.assumptions["reference objects (Atom.Val, Env.data, Future fields, tokenReader) are not lisp values and are exempt by the property statement"] = true
	c.assumptions["A-ESCAPE: a container allocated in the current activation may be written until the activation returns (escape before the last write is not tracked)"] = true
}

func exemptC02(f *ssa.Function) bool {
	n := f.String()
	return strings.Contains(n, "lib/call.call$") && f.Parent() != nil && f.Parent().Name() == "call" && strings.HasSuffix(n, "$7")
}

// ---------------------------------------------------------------------------
// C04: evaluation never panics into the host

var c04Funcs = []string{
	"lisp.EVAL", "lisp.eval_ast", "lisp.do", "lisp.macroexpand", "lisp.is_macro_call", "lisp.quasiquote", "lisp.qq_loop",
	"lisp.starts_with", "lisp.first",
	"env._newEnv", "env._newSubordinateEnv", "env._newSubordinateEnvWithBinds", "env.NewEnv", "env.NewSubordinateEnv", "env.NewSubordinateEnvWithBinds",
	"(*env.Env).Find", "(*env.Env).FindNT", "(*env.Env).Get", "(*env.Env).GetNT", "(*env.Env).Set", "(*env.Env).SetNT", "(*env.Env).Remove", "(*env.Env).RemoveNT",
	"types.Apply", "types.GetSlice", "(types.MalFunc).SetMacro", "(types.MalFunc).GetMacro",
	"lisperror.GetPosition", "lisperror.NewLispError", "lisperror.NewGoError", "(lisperror.LispError).ErrorValue", "(lisperror.LispError).Unwrap",
	"(lisperror.LispError).Error", "(lisperror.LispError).Position",
	"lib/call.call$1", "lib/call.call$2", "lib/call.call$3", "lib/call.call$4", "lib/call.call$5", "lib/call.call$6", "lib/call._recover",
}

// directBuiltins: every function or function literal of the module, outside lib/call, whose
// signature is that of a builtin (func(context.Context, []MalType) (MalType, error)): these are
// called by EVAL without the binder's recover wrapper, wherever and however they are created.
func directBuiltins(c *CheckCtx) []*ssa.Function {
	var out []*ssa.Function
	seen := map[*ssa.Function]bool{}
	var visit func(f *ssa.Function)
	visit = func(f *ssa.Function) {
		if f == nil || seen[f] {
			return
		}
		seen[f] = true
		sig := f.Signature
		if sig.Recv() == nil && sig.Params().Len() == 2 && sig.Results().Len() == 2 &&
			typeStr(sig.Params().At(0).Type()) == "context.Context" && typeStr(sig.Params().At(1).Type()) == "[]types.MalType" &&
			typeStr(sig.Results().At(0).Type()) == "types.MalType" && typeStr(sig.Results().At(1).Type()) == "error" && len(f.Blocks) > 0 {
			out = append(out, f)
		}
		for _, af := range f.AnonFuncs {
			visit(af)
		}
	}
	var paths []string
	for path := range c.eng.spkgs {
		paths = append(paths, path)
	}
	sort.Strings(paths)
	for _, path := range paths {
		if !strings.HasPrefix(path, modulePath) || strings.HasSuffix(path, "/lib/call") || path == modulePath+"/types" {
			continue
		}
		sp := c.eng.spkgs[path]
		var names []string
		for n := range sp.Members {
			names = append(names, n)
		}
		sort.Strings(names)
		for _, n := range names {
			if f, ok := sp.Members[n].(*ssa.Function); ok {
				visit(f)
			}
		}
	}
	return out
}

func init() {
	register(&Property{
		ID: "C04", Level: "proof", Technique: "contract-based deductive verification: no-panic obligations (index, slice bounds, type assertion, nil map, nil dereference, nil func, explicit panic) for every instruction of the evaluator, scope chain, error wrapper and binder wrappers under thin safety contracts; callee preconditions and the MalFunc/Func data invariant discharged at every call and construction site",
		DesignRef: "DESIGN.md §4 C04",
		Explain:   "EVAL and everything it calls in Go (eval_ast, do, macroexpand, quasiquote, scopes, Apply, error wrapper) carries `panics never`; builtins are reached only through Func.Fn whose field contract `panics never` is discharged on the six recover-protected wrapper closures of call.call and on every other Func literal",
		Run:       runC04,
	})
}

func (c *CheckCtx) jobsFor(names []string, mk func(f *ssa.Function) *Job) []*Job {
	var jobs []*Job
	for _, n := range names {
		f := c.eng.lookupFunc(n)
		if f == nil {
			c.machineryErrors = append(c.machineryErrors, "function under contract not found: "+n)
			continue
		}
		jobs = append(jobs, mk(f))
	}
	return jobs
}

func runC04(c *CheckCtx) {
	jobs := c.jobsFor(c04Funcs, func(f *ssa.Function) *Job {
		return &Job{Fn: f, PanicMode: "obligation", TypeInv: true}
	})
	nb := 0
	for _, f := range directBuiltins(c) {
		jobs = append(jobs, &Job{Fn: f, PanicMode: "obligation", TypeInv: true})
		nb++
	}
	c.note(fmt.Sprintf("%d functions with the builtin signature outside lib/call (called without the recover wrapper) are swept for panics, whatever their name", nb))
	c.runJobs(jobs, func(o *Obligation) bool {
		return strings.HasPrefix(o.Kind, "nopanic/") || o.Kind == "pre" || o.Kind == "typeinv" || o.Kind == "post" || strings.HasPrefix(o.Kind, "inv-")
	})
	c.assumptions["A-ENV: every EnvType is a *env.Env built by the env constructors (validEnv); every MalFunc has non-nil Eval/GenEnv and a valid Env, every Func a non-nil Fn (data invariant, checked at every construction site in the functions under contract)"] = true
	c.assumptions["stack exhaustion and non-termination are outside the property (statement)"] = true
}

// ---------------------------------------------------------------------------
// C05: reading never panics or hangs

var c05Funcs = []string{
	"reader.tokenize", "(*reader.tokenReader).next", "(*reader.tokenReader).peek", "reader.read_atom", "reader.read_list", "reader.read_external",
	"reader.read_vector", "reader.read_hash_map", "reader.read_set", "reader.read_placeholder", "reader.read_form", "reader.Read_str",
	"lisp.READ", "lisp.READWithPreamble", "lisp.PRINT",
	"printer.Pr_str", "printer.Pr_list", "printer.hashMapToString",
	"types.NewHashMap", "types.NewSet", "(*types.Position).Copy", "(*types.Position).Close", "(types.Token).GetPosition",
	"types.NewAnonymousCursorHere", "types.NewCursorFile",
	"lisperror.GetPosition", "lisperror.NewLispError",
}

func init() {
	register(&Property{
		ID: "C05", Level: "proof", Technique: "contract-based deductive verification: no-panic obligations and decreases (termination) obligations for the tokenizer driver, the recursive-descent reader, READ/READWithPreamble and the printer, over an arbitrary token array under the assumed scanner token contract",
		DesignRef: "DESIGN.md §4 C05",
		Explain:   "reader functions are verified for every token array (any Value/Type satisfying the assumed scanner contract), nil or non-nil placeholder table and environment; termination by a lexicographic measure (remaining tokens, rank) on the mutual recursion and len(str) on the preamble loop",
		Run:       runC05,
	})
}

func runC05(c *CheckCtx) {
	jobs := c.jobsFor(c05Funcs, func(f *ssa.Function) *Job {
		return &Job{Fn: f, PanicMode: "obligation", TypeInv: true}
	})
	c.runJobs(jobs, func(o *Obligation) bool {
		return strings.HasPrefix(o.Kind, "nopanic/") || o.Kind == "pre" || o.Kind == "typeinv" || o.Kind == "post" || strings.HasPrefix(o.Kind, "inv-") || o.Kind == "decreases"
	})
	c.assumptions["A-SCAN: github.com/jig/scanner v1.2.0 terminates on every input and produces tokens satisfying the Token invariant stated in reader/zz_contracts_verif.go (assumed, not proved)"] = true
	c.assumptions["A-DATA: values handed to the printer are acyclic (termination of Pr_str on data is by structural recursion, not mechanised)"] = true
	c.assumptions["regexp, strconv and strings library calls terminate and do not panic"] = true
}

// ---------------------------------------------------------------------------
// C14: = is structural equality and an equivalence

func init() {
	register(&Property{
		ID: "C14", Level: "proof", Technique: "contract-based deductive verification: Equal_Q proved equal to the one-step definition EQdef of structural equality (recursive calls abstracted by the uninterpreted EQ), with quantified loop invariants, a visited-set ghost for map ranges and the finite-map cardinality lemma; equivalence-relation and kind-separation lemmas proved on the spec by induction steps",
		DesignRef: "DESIGN.md §4 C14",
		Explain:   "functional contract of types.Equal_Q and types.Sequential_Q plus spec lemmas (reflexive, symmetric, transitive induction steps; kind separation)",
		Run:       runC14,
		ReplayOracle: func(o *Obligation) string {
			if o.Kind == "post" && strings.HasPrefix(o.Fn, "types.Equal_Q") {
				return "c14-eq"
			}
			return ""
		},
	})
}

func runC14(c *CheckCtx) {
	jobs := c.jobsFor([]string{"types.Equal_Q", "types.Sequential_Q", "types.GetSlice"}, func(f *ssa.Function) *Job {
		return &Job{Fn: f, PanicMode: "ignore"}
	})
	c.runJobs(jobs, func(o *Obligation) bool {
		return o.Kind == "post" || o.Kind == "pre" || strings.HasPrefix(o.Kind, "inv-")
	})
	c.runLemmas("C14")
	c.assumptions["M-IND: EQ is the fixpoint of EQdef (recursive calls are specified by EQ, the body is proved against one unfolding); partial correctness"] = true
	c.assumptions["reflect.TypeOf / Type.Name modelled as the dynamic-type tag of the interface value and its declared name"] = true
	c.assumptions["value containers reachable from the arguments are not written during the comparison (Equal_Q is pure; C02 for the rest of the system)"] = true
}

// ---------------------------------------------------------------------------
// C13: collection builtins match the sequence/map/set model

var c13Funcs = []string{
	"lib/core.count", "lib/core.empty_Q", "lib/core.first", "lib/core.rest", "lib/core.nth", "lib/core.cons", "lib/core.vec",
	"lib/core.rename_keys", "lib/core.hash_map", "lib/core.apply", "lib/core.mAp", "lib/core.get_in", "lib/core.update", "lib/core.update_in", "lib/core.assoc_in",
	"types.NewHashMap", "types.NewSet", "types.Nil_Q", "types.True_Q", "types.False_Q", "types.Keyword_Q", "types.String_Q", "types.NewKeyword", "types.Sequential_Q",
	"lib/core.conj", "lib/core.mErge", "lib/core.concat", "lib/core.seq", "lib/core.assoc", "lib/core.dissoc", "lib/core.get", "lib/core.contains_Q", "lib/core.copy_hash_map", "lib/core.copy_set", "lib/core.copy_vector", "lib/core.keys", "lib/core.vals",
	"lib/core.take", "lib/core.drop", "lib/core.drop_last", "lib/core.take_last", "lib/core.rAnge", "lib/core.subvec",
}

func init() {
	register(&Property{
		ID: "C13", Level: "proof", Technique: "contract-based deductive verification: one functional contract per collection builtin (result kind, length, element-wise / key-wise content against the sequence/map/set model, error outside the domain), discharged on the real bodies with quantified loop invariants",
		DesignRef: "DESIGN.md §4 C13",
		Explain:   "functional post-conditions of the collection builtins in lib/core (kinds from README and step files)",
		Run:       runC13,
	})
}

func runC13(c *CheckCtx) {
	jobs := c.jobsFor(c13Funcs, func(f *ssa.Function) *Job {
		return &Job{Fn: f, PanicMode: "ignore", Frame: true}
	})
	c.runJobs(jobs, func(o *Obligation) bool {
		return o.Kind == "post" || o.Kind == "pre" || strings.HasPrefix(o.Kind, "inv-") || o.Kind == "frame/store"
	})
	c.assumptions["a Go panic inside a builtin is turned into a lisp error by the binder's wrapper (C20/C04); contracts constrain normal returns only"] = true
	c.assumptions["the binder passes arguments of the declared Go parameter types (C20)"] = true
}

// ---------------------------------------------------------------------------
// C20: reflectively bound Go functions are called only within their declared contract

func init() {
	register(&Property{
		ID: "C20", Level: "proof", Technique: "contract-based deductive verification over an abstract reflect: panics-iff contracts of the argument builders, post-conditions of the six recover-protected wrapper closures with a ghost invocation counter, assert-at obligations relating the accepted argument window to the declared / signature-derived lisp bounds at the registration site, result-mapping contracts",
		DesignRef: "DESIGN.md §4 C20",
		Explain:   "lib/call: call (registration), _args, _args_ctx, _nil_nil, _nil_error, _result_error, _recover and the six wrapper closures",
		Run:       runC20,
	})
}

func runC20(c *CheckCtx) {
	names := []string{"lib/call.call", "lib/call._args", "lib/call._args_ctx", "lib/call._nil_nil", "lib/call._nil_error", "lib/call._result_error", "lib/call._recover",
		"lib/call.call$1", "lib/call.call$2", "lib/call.call$3", "lib/call.call$4", "lib/call.call$5", "lib/call.call$6"}
	// every closure of the binder that has the shape of a builtin can be what gets registered: those
	// without a contract are checked as they are (a call through an unknown function value may panic)
	if root := c.eng.lookupFunc("lib/call.call"); root != nil {
		have := map[string]bool{}
		for _, n := range names {
			have[n] = true
		}
		var visit func(f *ssa.Function)
		visit = func(f *ssa.Function) {
			for _, af := range f.AnonFuncs {
				sig := af.Signature
				if n := fnName(af); !have[n] && sig.Params().Len() == 2 && sig.Results().Len() == 2 && typeStr(sig.Params().At(0).Type()) == "context.Context" && typeStr(sig.Results().At(1).Type()) == "error" {
					have[n] = true
					names = append(names, n)
				}
				visit(af)
			}
		}
		visit(root)
	}
	jobs := c.jobsFor(names, func(f *ssa.Function) *Job {
		mode := "obligation"
		if n := f.Name(); n == "_nil_error" || n == "_result_error" {
			mode = "ignore" // a non-error second result panics inside the wrapper, which recovers it
		}
		return &Job{Fn: f, PanicMode: mode, TypeInv: true}
	})
	c.runJobs(jobs, func(o *Obligation) bool {
		return strings.HasPrefix(o.Kind, "nopanic/") || strings.HasPrefix(o.Kind, "panic-iff/") || o.Kind == "pre" || o.Kind == "post" || o.Kind == "assert" || strings.HasPrefix(o.Kind, "inv-")
	})
	c.assumptions["reflect abstracted: Type.NumIn/NumOut/IsVariadic as uninterpreted signature facts; Value.Call panics before invoking unless every argument is assignable (ghost `assignable`), then invokes once (ghost `invoked`); the called Go function may panic"] = true
	c.assumptions["runtime.FuncForPC(...).Name() contains a dot (\"pkgpath.func\")"] = true
	c.assumptions["name derivation (lower case, '_' -> '-') relies on strings.ToLower/Replace and is not verified"] = true
}

// ---------------------------------------------------------------------------
// C09: atom operations are atomic, never lose updates and never hang (lock discipline)

func concurrentFuncs(c *CheckCtx) []*ssa.Function {
	return c.funcsIn("/lib/concurrent")
}

func init() {
	register(&Property{
		ID: "C09", Level: "other", Technique: "contract-based deductive verification of the lock discipline: ghost lockset; obligations lock/held-for-access (every access to Atom.Val under Atom.Mutex in the right mode), lock/balance, lock/no-self-deadlock, lock/no-call-while-held (no lisp-running call while a lock taken by the function is held), plus sequential critical-section contracts of reset!/swap!/deref; atomicity itself by the standard lock argument (not mechanised)",
		DesignRef: "DESIGN.md §4 C09",
		Explain:   "partial: the per-thread obligations that make deref/reset!/swap! critical sections are proved; 'as if one at a time, consistent with real time' follows from them by the lock-atomicity meta-argument M-LOCK; no interleaving semantics in the verifier",
		Run:       runC09,
	})
}

func runC09(c *CheckCtx) {
	var jobs []*Job
	for _, f := range concurrentFuncs(c) {
		jobs = append(jobs, &Job{Fn: f, PanicMode: "ignore", LockMode: true})
	}
	c.note("Atom.LispPrint reads Atom.Val without the lock; printing is not one of the operations of the C09 statement (deref/reset!/swap!), so that access is reported under C11 (data races), not here")
	c.runJobs(jobs, func(o *Obligation) bool {
		if strings.HasPrefix(o.Kind, "lock/") {
			return !strings.Contains(o.Fn, "LispPrint")
		}
		// functional contracts of the atom operations only
		return (o.Kind == "post" || o.Kind == "pre") && (strings.Contains(o.Fn, "Atom") || strings.Contains(o.Fn, "_BANG"))
	})
	c.assumptions["M-LOCK: operations whose accesses to the protected field all happen inside one critical section of a single mutex are linearizable (meta-argument, not mechanised)"] = true
	c.assumptions["sync.RWMutex modelled as a ghost lockset (0 free, 1 read, 2 write), not re-entrant"] = true
	c.assumptions["gensym / memoize (lisp source in header-coreextended.lisp) are outside the verifier"] = true
}

// ---------------------------------------------------------------------------
// C10: futures run once, give every reader the same outcome, report status consistently

func init() {
	register(&Property{
		ID: "C10", Level: "other", Technique: "contract-based deductive verification of per-thread obligations: ghost counters (Apply called once, one outcome sent) on the goroutine closure, chan/redeposit (deref puts back exactly what it received), chan/single-depositor (no other function sends on the outcome channels), flag/monotone (only true is ever stored to Done/Cancelled), publish/order (Done already true when the outcome is sent), race/shared-field (status fields accessed without synchronisation), Cancel's sequential contract; schedule-quantified claims by argument only",
		DesignRef: "DESIGN.md §4 C10",
		Explain:   "partial: obligations on each thread's code; no interleaving semantics in the verifier",
		Run:       runC10,
	})
}

func runC10(c *CheckCtx) {
	var jobs []*Job
	for _, f := range concurrentFuncs(c) {
		n := fnName(f)
		if strings.Contains(n, "Future") || strings.Contains(n, "future") || strings.HasPrefix(n, "lib/concurrent.Load$") {
			jobs = append(jobs, &Job{Fn: f, PanicMode: "ignore", LockMode: true})
		}
	}
	c.runJobs(jobs, func(o *Obligation) bool {
		switch {
		case strings.HasPrefix(o.Kind, "race/"), strings.HasPrefix(o.Kind, "flag/"), strings.HasPrefix(o.Kind, "chan/"), strings.HasPrefix(o.Kind, "publish/"), strings.HasPrefix(o.Kind, "lock/"):
			return true
		}
		return o.Kind == "post" && (strings.Contains(o.Fn, "Future") || strings.Contains(o.Fn, "future"))
	})
	c.assumptions["channels of capacity 1 holding the outcome: blocking and scheduling are not modelled; a select is a nondeterministic choice among its cases"] = true
	c.assumptions["that every deref returns the same outcome follows from chan/redeposit + exactly one deposit by an argument over schedules that is not mechanised"] = true
}

// ---------------------------------------------------------------------------
// C11: concurrent evaluations on one environment are race-free and isolated

func init() {
	register(&Property{
		ID: "C11", Level: "other", Technique: "contract-based deductive verification of race-freedom obligations: ghost lockset; lock/held-for-access on the contents of Env.data and on Atom.Val (or the object is fresh and unpublished), lock/field-immutable (Env.mu/data/outer only written on fresh objects), lock/balance, lock/no-self-deadlock, lock/order (a scope's lock is only held while a strict ancestor's is taken: rank = outer-chain depth), fresh-scope post-conditions of the scope constructors; non-interference itself by argument",
		DesignRef: "DESIGN.md §4 C11",
		Explain:   "partial: per-thread obligations that rule out data races on scopes; no interleaving semantics in the verifier",
		Run:       runC11,
	})
}

func runC11(c *CheckCtx) {
	var jobs []*Job
	for _, f := range c.funcsIn("/env") {
		jobs = append(jobs, &Job{Fn: f, PanicMode: "ignore", LockMode: true})
	}
	if f := c.eng.lookupFunc("(*lib/concurrent.Atom).LispPrint"); f != nil {
		jobs = append(jobs, &Job{Fn: f, PanicMode: "ignore", LockMode: true})
	}
	c.runJobs(jobs, func(o *Obligation) bool {
		if strings.HasPrefix(o.Kind, "lock/") || o.Kind == "global/store" {
			return true
		}
		return o.Kind == "post" && strings.HasPrefix(o.Fn, "env.")
	})
	c.assumptions["M-NI: 'each evaluation returns what it returns alone' follows from race-freedom on scopes, fresh local scopes, immutable values (C02) and the absence of other shared mutable state by a non-interference argument that is not mechanised"] = true
	c.assumptions["gensym / memoize (lisp source) are outside the verifier"] = true
}
