package main

// C06 (bounded): print-then-read round trip on an enumerated family of data values.

const c06Harness = `package lisp_test

import (
	"fmt"
	"os"
	"sort"
	"strconv"
	"testing"

	. "github.com/jig/lisp"
	"github.com/jig/lisp/env"
	"github.com/jig/lisp/types"
)

// structural equality written from the statement (independent of the interpreter's =)
func c06eq(a, b types.MalType) bool {
	switch x := a.(type) {
	case nil:
		return b == nil
	case bool:
		y, ok := b.(bool)
		return ok && x == y
	case int:
		y, ok := b.(int)
		return ok && x == y
	case string:
		y, ok := b.(string)
		return ok && x == y
	case types.Symbol:
		y, ok := b.(types.Symbol)
		return ok && x.Val == y.Val
	case types.List:
		y, ok := b.(types.List)
		return ok && c06seq(x.Val, y.Val)
	case types.Vector:
		y, ok := b.(types.Vector)
		return ok && c06seq(x.Val, y.Val)
	case types.HashMap:
		y, ok := b.(types.HashMap)
		if !ok || len(x.Val) != len(y.Val) {
			return false
		}
		for k, v := range x.Val {
			w, ok := y.Val[k]
			if !ok || !c06eq(v, w) {
				return false
			}
		}
		return true
	case types.Set:
		y, ok := b.(types.Set)
		if !ok || len(x.Val) != len(y.Val) {
			return false
		}
		for k := range x.Val {
			if _, ok := y.Val[k]; !ok {
				return false
			}
		}
		return true
	}
	return false
}

func c06seq(a, b []types.MalType) bool {
	if len(a) != len(b) {
		return false
	}
	for i := range a {
		if !c06eq(a[i], b[i]) {
			return false
		}
	}
	return true
}

func c06desc(v types.MalType) string {
	switch x := v.(type) {
	case nil:
		return "nil"
	case string:
		return "string" + strconv.Quote(x)
	case types.Symbol:
		return "symbol" + strconv.Quote(x.Val)
	case types.List:
		s := "list("
		for _, e := range x.Val {
			s += c06desc(e) + ","
		}
		return s + ")"
	case types.Vector:
		s := "vector["
		for _, e := range x.Val {
			s += c06desc(e) + ","
		}
		return s + "]"
	case types.HashMap:
		keys := []string{}
		for k := range x.Val {
			keys = append(keys, k)
		}
		sort.Strings(keys)
		s := "map{"
		for _, k := range keys {
			s += strconv.Quote(k) + ":" + c06desc(x.Val[k]) + ","
		}
		return s + "}"
	case types.Set:
		keys := []string{}
		for k := range x.Val {
			keys = append(keys, k)
		}
		sort.Strings(keys)
		s := "set{"
		for _, k := range keys {
			s += strconv.Quote(k) + ","
		}
		return s + "}"
	}
	return fmt.Sprintf("%T(%v)", v, v)
}

func TestGovcBounded(t *testing.T) {
	ns := env.NewEnv()
	alpha := []string{"a", "\"", "\\", "\n", "\t", "¬", "ʞ", "{", "}", " ", ";", "n", "'", "(", "$"}
	maxLen := 3
	if os.Getenv("VERIF_TIER") == "thorough" {
		maxLen = 4
	}
	var strs []string
	var gen func(prefix string, n int)
	gen = func(prefix string, n int) {
		strs = append(strs, prefix)
		if n == 0 {
			return
		}
		for _, c := range alpha {
			gen(prefix+c, n-1)
		}
	}
	gen("", maxLen)
	strs = append(strs, "{\"a\"}", "{\"k\":\"v\"}", "{\"¬\"}", "{\"a\nb\"}", "{\"", "{\"}", "¬¬", "line1\nline2", "tab\there", "\\n", "\\\\", "\\\"")
	// JSON-looking strings with white space around them, control and non-printable characters
	// text that LOOKS like an escape sequence of some notation but is plain characters here
	strs = append(strs, "\\u0041", "a\\u00e9b", "\\\\u0041", "\\U00000041", "\\x41", "\\101", "\\t", "\\r", "\\0", "\\a", "%41", "&amp;", "$1", "${a}", "\\u{41}", "C:\\users\\u0041dmin")
	strs = append(strs, "{\"a\": 1}\n", " {\"a\"}", "{\"a\"} ", "\t{\"k\": \"¬\"} ", "\n{\"a\"}\n", "\r", "a\rb", "\x01", "a\x00b", "\u00a0", "é", "日本", "\x7f", "\u2028")
	kw := func(s string) string { return "ʞ" + s }
	var atoms []types.MalType
	atoms = append(atoms, nil, true, false, 0, -7, 42, 1000000)
	for _, s := range strs {
		if len(s) >= 2 && s[:2] == "ʞ" {
			continue // by representation this is a keyword, and its name is outside the token alphabet
		}
		atoms = append(atoms, s)
	}
	atoms = append(atoms, kw("a"), kw("a-b"), kw("k1"), types.Symbol{Val: "a"}, types.Symbol{Val: "b-c"}, types.Symbol{Val: "+"}, types.Symbol{Val: "nil?"})
	small := []types.MalType{nil, true, 0, 42, "", "a", "\"", "\\", "a\nb", "¬", "ʞ", "{\"a\"}", "x y", kw("a"), types.Symbol{Val: "s"}}
	var values []types.MalType
	values = append(values, atoms...)
	// collections of small atoms, then one more level
	var level1 []types.MalType
	level1 = append(level1, types.List{}, types.Vector{}, types.HashMap{Val: map[string]types.MalType{}}, types.Set{Val: map[string]struct{}{}})
	for _, a := range small {
		level1 = append(level1, types.List{Val: []types.MalType{a}}, types.Vector{Val: []types.MalType{a}})
		for _, b := range small {
			level1 = append(level1, types.List{Val: []types.MalType{a, b}}, types.Vector{Val: []types.MalType{a, b}})
		}
	}
	keys := []string{"", "a", "\"", "a\nb", "¬", "{\"a\"}", kw("a"), kw("b"), "a\tb", "\r", "\x01", "\u00a0", "\\", " {\"a\"} "}
	for _, k := range keys {
		level1 = append(level1, types.Set{Val: map[string]struct{}{k: {}}})
		for _, a := range small {
			level1 = append(level1, types.HashMap{Val: map[string]types.MalType{k: a}})
		}
		for _, k2 := range keys {
			if k2 != k {
				level1 = append(level1, types.Set{Val: map[string]struct{}{k: {}, k2: {}}}, types.HashMap{Val: map[string]types.MalType{k: 1, k2: "v"}})
			}
		}
	}
	values = append(values, level1...)
	step := 7
	if os.Getenv("VERIF_TIER") == "thorough" {
		step = 1
	}
	for i := 0; i < len(level1); i += step {
		c := level1[i]
		values = append(values, types.List{Val: []types.MalType{c}}, types.Vector{Val: []types.MalType{1, c}}, types.HashMap{Val: map[string]types.MalType{"k": c}}, types.List{Val: []types.MalType{c, c}})
	}
	cases, fails := 0, 0
	for i, v := range values {
		cases++
		text := PRINT(v)
		if i%997 == 0 {
			fmt.Printf("BOUNDED-SAMPLE %s  prints as  %s\n", c06desc(v), strconv.Quote(text))
		}
		back, err := READ(text, types.NewCursorFile("c06"), ns)
		switch {
		case err != nil:
			fails++
			fmt.Printf("BOUNDED-FAIL roundtrip/%s :: PRINT gives %s ; READ of that fails: %v\n", c06desc(v), strconv.Quote(text), err)
		case !c06eq(v, back):
			fails++
			fmt.Printf("BOUNDED-FAIL roundtrip/%s :: PRINT gives %s ; READ of that gives %s\n", c06desc(v), strconv.Quote(text), c06desc(back))
		}
	}
	fmt.Printf("BOUNDED-CASES %d %d\n", cases, cases)
	_ = fails
}
`

func init() {
	register(&Property{
		ID: "C06", Level: "exploration",
		Technique: "BOUNDED stand-in (not a proof; the contract-based verifier cannot reach this property: the escape codec is string rewriting through strings.Replace/ReplaceAll and the third-party scanner): the real PRINT and READ are run, through a test injected with go test -overlay, on every string over a 15-character alphabet of special characters up to length 3 (4 in the thorough tier), integers, keywords, symbols, and lists/vectors/hash-maps/sets of those up to nesting depth 2; the result is compared with an independent structural equality",
		DesignRef: "DESIGN.md §4 C06",
		Explain:   "bounded: exhaustive over the stated family only; says nothing beyond it; the second half of the statement (accepted texts re-print to equal values) is not explored",
		Run:       runC06,
	})
}

func runC06(c *CheckCtx) {
	c.runBounded("", c06Harness, "every string over the alphabet {a \" \\ newline tab ¬ U+029E { } space ; n ' ( $} of length <= 3 (quick) / 4 (thorough) plus 42 hand-picked strings (JSON-looking with and without surrounding white space, control and non-printable characters, text that looks like an escape sequence of another notation such as backslash-u-hex, backslash-x, %41; strings that begin with U+029E are keywords by representation and are left out); 7 scalars; 3 keywords; 4 symbols; all lists and vectors of 0-2 elements and all hash-maps/sets of 1-2 entries over 15 representative atoms and 14 keys (with tab, CR, control, non-breaking space, backslash); one more nesting level over a sample (every 7th, all in thorough) of those; distinct = all cases (the enumeration has no repetitions); non-trivial = every case (each is printed, read back and compared)", true)
	c.assumptions["bounded stand-in: nothing is claimed outside the enumerated family"] = true
	c.assumptions["floating-point literals are excluded by the statement"] = true
}
