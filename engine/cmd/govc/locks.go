package main

// Lock discipline (C09-C11): guarded fields, balance, no lisp-running call while holding a lock
// taken by the same function, lock order. Sequential obligations; the step from "every access
// is under the lock" to atomicity/linearizability is a meta-argument (M-LOCK).

import (
	"fmt"
	"strings"
	"go/token"
	"go/types"

	"golang.org/x/tools/go/ssa"
)

// guardedField: how the mutex protecting a field is found from the pointer to the struct.
type guardedField struct {
	structType string // e.g. "concurrent.Atom"
	field      string
	mutexField string
	embedded   bool // mutex is an embedded struct field (address-of), otherwise a pointer field
	contents   bool // the field holds a map whose contents are what is protected
}

// sharedFlags: fields written by one thread and read by others with no lock at all; every access
// is reported (race/shared-field) and every store must store true (flag/monotone).
var sharedFlags = map[string]bool{"concurrent.Future.Done": true, "concurrent.Future.Cancelled": true}

func (a *Act) checkSharedFlag(st *State, lv *LV, write bool, val Term, pos token.Pos) {
	tr := a.tr
	if !tr.lockMode || lv == nil || lv.kind != lvField || lv.base.kind != lvCell {
		return
	}
	stt, ok := lv.base.typ.Underlying().(*types.Struct)
	if !ok {
		return
	}
	name := typeStr(lv.base.typ) + "." + stt.Field(lv.field).Name()
	if !sharedFlags[name] {
		return
	}
	// allocated by this activation and not yet shared: fine
	a.oblige(st, "race/shared-field", pos, "true", app(">", lv.base.addr, tr.alloc0), map[string]Term{"field": fmt.Sprintf("%q", name)})
	if write {
		a.oblige(st, "flag/monotone", pos, "true", Eq(val, "true"), nil)
	}
}

type recvRec struct {
	ch, val, cond Term
	sort          string
}

var guardedFields = []guardedField{
	{structType: "concurrent.Atom", field: "Val", mutexField: "Mutex", embedded: true},
	{structType: "env.Env", field: "data", mutexField: "mu", embedded: false, contents: true},
}

type guardInfo struct {
	mutex Term
	base  Term
	what  string
}

// guardFor: is lv a guarded field of a heap-resident struct? returns the mutex address.
func (a *Act) guardFor(st *State, lv *LV) *guardInfo {
	if lv == nil || lv.kind != lvField || lv.base.kind != lvCell {
		return nil
	}
	stName := typeStr(lv.base.typ)
	stt, ok := lv.base.typ.Underlying().(*types.Struct)
	if !ok {
		return nil
	}
	fname := stt.Field(lv.field).Name()
	for _, g := range guardedFields {
		if g.structType != stName || g.field != fname {
			continue
		}
		for i := 0; i < stt.NumFields(); i++ {
			if stt.Field(i).Name() != g.mutexField {
				continue
			}
			mlv := &LV{kind: lvField, typ: stt.Field(i).Type(), base: lv.base, field: i}
			var mu Term
			if g.embedded {
				mu = a.firstClass(nil, mlv)
			} else {
				mu = a.load(st, mlv)
			}
			return &guardInfo{mutex: mu, base: lv.base.addr, what: stName + "." + fname}
		}
	}
	return nil
}

func isContentsGuard(what string) bool {
	for _, g := range guardedFields {
		if g.structType+"."+g.field == what {
			return g.contents
		}
	}
	return false
}

// checkGuardedAccess emits lock/held-for-access for a direct load/store of a guarded field.
func (a *Act) checkGuardedAccess(st *State, lv *LV, write bool, pos token.Pos, v ssa.Value) {
	tr := a.tr
	g := a.guardFor(st, lv)
	if g == nil {
		return
	}
	if isContentsGuard(g.what) {
		// the field itself is immutable after construction; its contents are what is protected
		if v != nil {
			if a.guards == nil {
				a.guards = map[ssa.Value]*guardInfo{}
			}
			a.guards[v] = g
		}
		if write && tr.lockMode {
			a.oblige(st, "lock/field-immutable", pos, "true", tr.writable(g.base), nil)
		}
		return
	}
	if !tr.lockMode {
		return
	}
	a.obligeHeld(st, g, write, pos)
}

func (a *Act) obligeHeld(st *State, g *guardInfo, write bool, pos token.Pos) {
	tr := a.tr
	ls := tr.lockState(st, g.mutex)
	var held Term
	if write {
		held = Eq(ls, "2")
	} else {
		held = Not(Eq(ls, "0"))
	}
	// an object allocated by this activation and not yet published needs no lock
	a.oblige(st, "lock/held-for-access", pos, "true", Or(held, app(">", g.base, tr.alloc0)), map[string]Term{"mutex": g.mutex})
}

// checkMapAccess: contents of a guarded map.
func (a *Act) checkMapAccess(st *State, m ssa.Value, write bool, pos token.Pos) {
	if !a.tr.lockMode || a.guards == nil {
		return
	}
	if g, ok := a.guards[m]; ok {
		a.obligeHeld(st, g, write, pos)
	}
}

// lispRunning: callees that may run arbitrary lisp code (and hence lock any atom or scope).
func lispRunning(name string) bool {
	switch name {
	case modulePath + "/types.Apply", modulePath + ".EVAL", modulePath + ".eval_ast", modulePath + ".do", modulePath + ".macroexpand",
		"field:types.Func.Fn", "field:types.MalFunc.Eval":
		return true
	}
	return false
}

func (a *Act) checkNoLockHeldAtCall(st *State, name string, pos token.Pos) {
	tr := a.tr
	if !tr.lockMode || !lispRunning(name) {
		return
	}
	now := tr.read(tr.heapOf(st, tr.lockCount()))
	entry := tr.read(tr.heapOf(tr.rootAct.entryState, tr.lockCount()))
	a.oblige(st, "lock/no-call-while-held", pos, "true", Eq(now, entry), map[string]Term{"callee": fmt.Sprintf("%q", name)})
}

func (a *Act) checkLockBalance(st *State, pos token.Pos) {
	tr := a.tr
	if !tr.lockMode || a.parent != nil {
		return
	}
	now := tr.read(tr.heapOf(st, tr.lockCount()))
	entry := tr.read(tr.heapOf(tr.rootAct.entryState, tr.lockCount()))
	a.oblige(st, "lock/balance", pos, "true", Eq(now, entry), nil)
}

// channel discipline hooks (C10): what is received in a select case and what is sent
func (a *Act) noteRecv(st *State, ch, val, cond Term, sort string) {
	a.recvs = append(a.recvs, recvRec{ch: ch, val: val, cond: And(st.reach, cond), sort: sort})
}

func (a *Act) noteSend(st *State, ch ssa.Value, chT, val Term, cond Term, pos token.Pos) {
	tr := a.tr
	c := tr.comp("ghost:sent", nil, "Int", false)
	cur := tr.read(tr.heapOf(st, c))
	st.heap[c.name] = tr.heapStore(tr.heapOf(st, c), nil, tr.define("sent", "Int", Ite(cond, app("+", cur, "1"), cur)))
	if !tr.lockMode {
		return
	}
	fname := fnName(a.fn)
	// re-deposit: in Future.Deref every send puts back exactly what the same activation received on that channel
	if strings.HasSuffix(fname, "Future).Deref") {
		var alts []Term
		vs := a.sortOf(ch.Type().Underlying().(*types.Chan).Elem())
		for _, r := range a.recvs {
			if r.sort != vs {
				continue
			}
			alts = append(alts, And(r.cond, Eq(r.ch, chT), Eq(r.val, val)))
		}
		a.oblige(st, "chan/redeposit", pos, cond, Or(alts...), nil)
	}
	// single depositor: the outcome slots are written by the body's goroutine (once, ghost counter) and by
	// deref's re-deposit only; a send anywhere else would give readers a second, different outcome
	if fa, ok := chanField(ch); ok && (fa.name == "ValChan" || fa.name == "ErrChan") && !strings.Contains(fname, "NewFuture$") && !strings.HasSuffix(fname, "Future).Deref") {
		a.oblige(st, "chan/single-depositor", pos, cond, "false", nil)
	}
	// publish order: when the outcome is sent (from then on a deref can return) Done is already true
	if fa, ok := chanField(ch); ok && (fa.name == "ValChan" || fa.name == "ErrChan") && strings.Contains(fname, "NewFuture$") {
		base := a.lvOf(st, fa.base)
		stt := base.typ.Underlying().(*types.Struct)
		for i := 0; i < stt.NumFields(); i++ {
			if stt.Field(i).Name() == "Done" {
				done := a.load(st, &LV{kind: lvField, typ: stt.Field(i).Type(), base: base, field: i})
				a.oblige(st, "publish/order", pos, cond, done, nil)
			}
		}
	}
}

type chanFieldRef struct {
	base ssa.Value
	name string
}

// chanField: ch is the value of field X of the struct pointed to by base.
func chanField(ch ssa.Value) (chanFieldRef, bool) {
	if u, ok := ch.(*ssa.UnOp); ok {
		if fa, ok := u.X.(*ssa.FieldAddr); ok {
			pt := fa.X.Type().Underlying().(*types.Pointer).Elem()
			if stt, ok := pt.Underlying().(*types.Struct); ok {
				return chanFieldRef{base: fa.X, name: stt.Field(fa.Field).Name()}, true
			}
		}
	}
	return chanFieldRef{}, false
}
