package main

// selftest: apply each must-fail mutant to a scratch copy of /repo and check that the named
// obligation fails (and that the unchanged copy is quiet).

import (
	"bufio"
	"flag"
	"fmt"
	"os"
	"os/exec"
	"path/filepath"
	"sort"
	"strings"
)

type mutant struct {
	file     string
	property string
	expect   []string
	tier     string // quick unless the header says thorough
}

func readMutant(path string) (*mutant, error) {
	f, err := os.Open(path)
	if err != nil {
		return nil, err
	}
	defer f.Close()
	m := &mutant{file: path}
	sc := bufio.NewScanner(f)
	for sc.Scan() {
		ln := sc.Text()
		if !strings.HasPrefix(ln, "#") {
			break
		}
		ln = strings.TrimSpace(strings.TrimPrefix(ln, "#"))
		switch {
		case strings.HasPrefix(ln, "property:"):
			m.property = strings.TrimSpace(strings.TrimPrefix(ln, "property:"))
		case strings.HasPrefix(ln, "expect:"):
			m.expect = append(m.expect, strings.TrimSpace(strings.TrimPrefix(ln, "expect:")))
		case strings.HasPrefix(ln, "tier:"):
			m.tier = strings.TrimSpace(strings.TrimPrefix(ln, "tier:"))
		}
	}
	if m.property == "" {
		return nil, fmt.Errorf("%s: no '# property:' header", path)
	}
	return m, nil
}

func cmdSelftest(args []string) int {
	fs := flag.NewFlagSet("selftest", flag.ExitOnError)
	dir := fs.String("dir", filepath.Join(verifDir, "selftest", "mutants"), "directory with *.patch mutants")
	only := fs.String("only", "", "substring filter on mutant file names")
	fs.Parse(args)
	files, _ := filepath.Glob(filepath.Join(*dir, "*.patch"))
	sort.Strings(files)
	self, _ := os.Executable()
	bad := 0
	for _, f := range files {
		if *only != "" && !strings.Contains(f, *only) {
			continue
		}
		m, err := readMutant(f)
		if err != nil {
			fmt.Println("SELFTEST-ERROR", err)
			bad++
			continue
		}
		scratch := scratchDir()
		work := filepath.Join(scratch, "repo")
		out := filepath.Join(scratch, "out")
		os.MkdirAll(out, 0o755)
		run := func(name string, arg ...string) (string, error) {
			c := exec.Command(name, arg...)
			c.Env = goEnv()
			b, err := c.CombinedOutput()
			return string(b), err
		}
		if o, err := run("git", "-C", "/repo", "worktree", "add", "--detach", work, "HEAD"); err != nil {
			fmt.Println("SELFTEST-ERROR worktree:", o)
			bad++
			os.RemoveAll(scratch)
			continue
		}
		// the working tree of /repo may contain uncommitted contract edits: copy them over
		run("rsync", "-a", "--exclude", ".git", "/repo/", work+"/")
		if o, err := run("git", "-C", work, "apply", "--whitespace=nowarn", f); err != nil {
			fmt.Printf("SELFTEST-ERROR %s does not apply: %s\n", filepath.Base(f), o)
			bad++
		} else {
			tier := "quick"
			if m.tier != "" {
				tier = m.tier
			}
			o, _ := run(self, "check", "--property", m.property, "--tier", tier, "--repo", work, "--out", out)
			okAll := true
			if len(m.expect) == 1 && m.expect[0] == "stale-contract" {
				// a renamed local that a contract names: the check must say that the contract file is out
				// of date (machinery error, exit 2), not that the property is violated
				if strings.Contains(o, "VIOLATION") || !strings.Contains(o, "MACHINERY-ERROR: contract error") {
					fmt.Printf("SELFTEST-FALSE-ALARM %s (%s): expected contract errors only\n", filepath.Base(f), m.property)
					bad++
				} else {
					fmt.Printf("SELFTEST-OK %s (%s, stale contract reported as such)\n", filepath.Base(f), m.property)
				}
				run("git", "-C", "/repo", "worktree", "remove", "--force", work)
				os.RemoveAll(scratch)
				continue
			}
			if len(m.expect) == 1 && m.expect[0] == "limit" {
				// a behaviour-preserving change that the proofs are known not to survive (documented in
				// DESIGN.md): the alarm must at least say that no failing input was found
				viol, confirmed := 0, 0
				for _, ln := range strings.Split(o, "\n") {
					if strings.HasPrefix(ln, "VIOLATION") {
						viol++
						if !strings.HasSuffix(strings.TrimSpace(ln), "no-failing-input-found") {
							confirmed++
						}
					}
				}
				if confirmed > 0 {
					fmt.Printf("SELFTEST-FALSE-ALARM %s (%s): a behaviour-preserving change is reported with a replayed failing input\n", filepath.Base(f), m.property)
					bad++
				} else {
					fmt.Printf("SELFTEST-KNOWN-LIMIT %s (%s): %d undischarged obligations, none with a failing input\n", filepath.Base(f), m.property, viol)
				}
				run("git", "-C", "/repo", "worktree", "remove", "--force", work)
				os.RemoveAll(scratch)
				continue
			}
			if len(m.expect) == 1 && m.expect[0] == "quiet" {
				// a behaviour-preserving change: the check must stay silent
				if strings.Contains(o, "VIOLATION") || strings.Contains(o, "MACHINERY-ERROR") {
					fmt.Printf("SELFTEST-FALSE-ALARM %s (%s)\n", filepath.Base(f), m.property)
					bad++
					lines := strings.Split(strings.TrimSpace(o), "\n")
					if len(lines) > 6 {
						lines = lines[len(lines)-6:]
					}
					fmt.Println("   ", strings.Join(lines, "\n    "))
				} else {
					fmt.Printf("SELFTEST-OK %s (%s, quiet)\n", filepath.Base(f), m.property)
				}
				run("git", "-C", "/repo", "worktree", "remove", "--force", work)
				os.RemoveAll(scratch)
				continue
			}
			for _, e := range m.expect {
				found := false
				for _, ln := range strings.Split(o, "\n") {
					if strings.HasPrefix(ln, "VIOLATION") && strings.Contains(ln, e) {
						found = true
					}
				}
				if !found {
					okAll = false
					fmt.Printf("SELFTEST-MISS %s: expected a VIOLATION containing %q\n", filepath.Base(f), e)
				}
			}
			if len(m.expect) == 0 && !strings.Contains(o, "VIOLATION") {
				okAll = false
				fmt.Printf("SELFTEST-MISS %s: expected some VIOLATION\n", filepath.Base(f))
			}
			if okAll {
				fmt.Printf("SELFTEST-OK %s (%s)\n", filepath.Base(f), m.property)
			} else {
				bad++
				lines := strings.Split(strings.TrimSpace(o), "\n")
				if len(lines) > 6 {
					lines = lines[len(lines)-6:]
				}
				fmt.Println("   ", strings.Join(lines, "\n    "))
			}
		}
		run("git", "-C", "/repo", "worktree", "remove", "--force", work)
		os.RemoveAll(scratch)
	}
	if bad > 0 {
		return 1
	}
	return 0
}
