package main

// SMT-LIB term helpers. Terms are plain strings (s-expressions).

import (
	"fmt"
	"sort"
	"strings"
)

type Term = string

func app(f string, args ...Term) Term {
	if len(args) == 0 {
		return f
	}
	return "(" + f + " " + strings.Join(args, " ") + ")"
}

func And(ts ...Term) Term {
	var out []Term
	for _, t := range ts {
		if t == "true" || t == "" {
			continue
		}
		if t == "false" {
			return "false"
		}
		out = append(out, t)
	}
	switch len(out) {
	case 0:
		return "true"
	case 1:
		return out[0]
	}
	return app("and", out...)
}

func Or(ts ...Term) Term {
	var out []Term
	for _, t := range ts {
		if t == "false" || t == "" {
			continue
		}
		if t == "true" {
			return "true"
		}
		out = append(out, t)
	}
	switch len(out) {
	case 0:
		return "false"
	case 1:
		return out[0]
	}
	return app("or", out...)
}

func Not(t Term) Term {
	switch t {
	case "true":
		return "false"
	case "false":
		return "true"
	}
	if strings.HasPrefix(t, "(not ") && balanced(t[5:len(t)-1]) {
		return t[5 : len(t)-1]
	}
	return app("not", t)
}

func balanced(s string) bool {
	d := 0
	for i := 0; i < len(s); i++ {
		switch s[i] {
		case '"':
			// skip string literal
			i++
			for i < len(s) {
				if s[i] == '"' {
					if i+1 < len(s) && s[i+1] == '"' {
						i += 2
						continue
					}
					break
				}
				i++
			}
		case '(':
			d++
		case ')':
			d--
			if d < 0 {
				return false
			}
		}
	}
	return d == 0
}

func Implies(a, b Term) Term {
	if a == "true" {
		return b
	}
	if a == "false" || b == "true" {
		return "true"
	}
	return app("=>", a, b)
}

func Ite(c, a, b Term) Term {
	if c == "true" {
		return a
	}
	if c == "false" {
		return b
	}
	if a == b {
		return a
	}
	return app("ite", c, a, b)
}

func Eq(a, b Term) Term {
	if a == b {
		return "true"
	}
	return app("=", a, b)
}

func IntLit(n int64) Term {
	if n < 0 {
		return fmt.Sprintf("(- %d)", -n)
	}
	return fmt.Sprintf("%d", n)
}

// StrLit renders a Go string (bytes) as an SMT-LIB string literal in which
// every byte is one character (codes 0..255).
func StrLit(s string) Term {
	var b strings.Builder
	b.WriteByte('"')
	for i := 0; i < len(s); i++ {
		c := s[i]
		switch {
		case c == '"':
			b.WriteString(`""`)
		case c == '\\':
			b.WriteString(`\u{5c}`)
		case c >= 0x20 && c < 0x7f:
			b.WriteByte(c)
		default:
			fmt.Fprintf(&b, `\u{%x}`, c)
		}
	}
	b.WriteByte('"')
	return b.String()
}

var smtReserved = map[string]bool{
	"as": true, "let": true, "forall": true, "exists": true, "par": true, "assert": true,
	"push": true, "pop": true, "exit": true, "true": true, "false": true, "not": true,
	"and": true, "or": true, "ite": true, "select": true, "store": true, "distinct": true,
	"Int": true, "Bool": true, "Real": true, "String": true, "Array": true, "div": true,
	"mod": true, "abs": true, "lambda": true, "match": true, "is": true, "xor": true,
}

// mangle turns an arbitrary Go identifier / type string into an SMT symbol.
func mangle(s string) string {
	var b strings.Builder
	for _, r := range s {
		switch {
		case r >= 'a' && r <= 'z', r >= 'A' && r <= 'Z', r >= '0' && r <= '9', r == '_':
			b.WriteRune(r)
		case r == '.':
			b.WriteString("_")
		case r == '*':
			b.WriteString("p_")
		case r == '[':
			b.WriteString("L")
		case r == ']':
			b.WriteString("R")
		case r == '/':
			b.WriteString("_")
		case r == '$':
			b.WriteString("_S")
		default:
			fmt.Fprintf(&b, "_x%x", r)
		}
	}
	out := b.String()
	if out == "" || (out[0] >= '0' && out[0] <= '9') || smtReserved[out] {
		out = "m_" + out
	}
	return out
}

func sortedKeys[V any](m map[string]V) []string {
	ks := make([]string, 0, len(m))
	for k := range m {
		ks = append(ks, k)
	}
	sort.Strings(ks)
	return ks
}
