package main

import "strings"

// tryReplay turns the solver's model of a failed obligation into a Go test that is run
// against the real code. Filled in per obligation kind.
func (c *CheckCtx) tryReplay(f *Failure, b *strings.Builder) {
	f.Confirm = "no-model"
}
