package main

// Replay: read the solver's model of a failed obligation back as Go values and run the
// real function on them (in-package test injected with `go test -overlay`).

import (
	"bytes"
	"context"
	"encoding/json"
	"fmt"
	"go/types"
	"os"
	"os/exec"
	"path/filepath"
	"sort"
	"strconv"
	"strings"
	"time"

	"golang.org/x/tools/go/ssa"
)

// ---- s-expressions ---------------------------------------------------------

type sx struct {
	atom string
	list []*sx
	str  bool
}

func parseSx(s string) []*sx {
	pos := 0
	var parse func() *sx
	skip := func() {
		for pos < len(s) && (s[pos] == ' ' || s[pos] == '\n' || s[pos] == '\t' || s[pos] == '\r') {
			pos++
		}
	}
	parse = func() *sx {
		skip()
		if pos >= len(s) {
			return nil
		}
		switch s[pos] {
		case '(':
			pos++
			n := &sx{list: []*sx{}}
			for {
				skip()
				if pos >= len(s) {
					return n
				}
				if s[pos] == ')' {
					pos++
					return n
				}
				c := parse()
				if c == nil {
					return n
				}
				n.list = append(n.list, c)
			}
		case '"':
			pos++
			var b strings.Builder
			for pos < len(s) {
				if s[pos] == '"' {
					if pos+1 < len(s) && s[pos+1] == '"' {
						b.WriteByte('"')
						pos += 2
						continue
					}
					pos++
					break
				}
				b.WriteByte(s[pos])
				pos++
			}
			return &sx{atom: b.String(), str: true}
		default:
			st := pos
			for pos < len(s) && !strings.ContainsRune(" \n\t\r()", rune(s[pos])) {
				pos++
			}
			return &sx{atom: s[st:pos]}
		}
	}
	var out []*sx
	for {
		n := parse()
		if n == nil {
			break
		}
		out = append(out, n)
	}
	return out
}

func (n *sx) String() string {
	if n.list == nil {
		if n.str {
			return `"` + strings.ReplaceAll(n.atom, `"`, `""`) + `"`
		}
		return n.atom
	}
	parts := make([]string, len(n.list))
	for i, c := range n.list {
		parts[i] = c.String()
	}
	return "(" + strings.Join(parts, " ") + ")"
}

func (n *sx) head() string {
	if n.list != nil && len(n.list) > 0 {
		return n.list[0].atom
	}
	return n.atom
}

func (n *sx) intVal() (int64, bool) {
	if n.list == nil {
		v, err := strconv.ParseInt(n.atom, 10, 64)
		return v, err == nil
	}
	if len(n.list) == 2 && n.list[0].atom == "-" {
		v, ok := n.list[1].intVal()
		return -v, ok
	}
	return 0, false
}

// smtStringToGo decodes \u{..} escapes of an SMT string literal body into bytes.
func smtStringToGo(s string) string {
	var b []byte
	for i := 0; i < len(s); i++ {
		if s[i] == '\\' && i+2 < len(s) && s[i+1] == 'u' && s[i+2] == '{' {
			j := strings.IndexByte(s[i:], '}')
			if j > 0 {
				v, err := strconv.ParseUint(s[i+3:i+j], 16, 32)
				if err == nil {
					if v < 256 {
						b = append(b, byte(v))
					} else {
						b = append(b, []byte(string(rune(v)))...)
					}
					i += j
					continue
				}
			}
		}
		if s[i] == '\\' && i+1 < len(s) && s[i+1] == 'x' && i+3 < len(s) {
			v, err := strconv.ParseUint(s[i+2:i+4], 16, 8)
			if err == nil {
				b = append(b, byte(v))
				i += 3
				continue
			}
		}
		b = append(b, s[i])
	}
	return string(b)
}

// ---- model evaluation ------------------------------------------------------

type modelEval struct {
	c       *CheckCtx
	tr      *Tr
	base    string // prelude + negated obligation + size hints
	fixed   []string
	cache   map[Term]*sx
	strs     []string
	sortHint map[Term]string
	typeHint map[Term]string
	hintsCommitted bool
	queries int
	failed  bool
}

// eval asks the solver for the values of the given terms under the current model constraints.
func (m *modelEval) eval(terms []Term) bool {
	var need []Term
	seen := map[Term]bool{}
	for _, t := range terms {
		if _, ok := m.cache[t]; !ok && !seen[t] {
			need = append(need, t)
			seen[t] = true
		}
	}
	if len(need) == 0 {
		return true
	}
	q := m.base
	for _, f := range m.fixed {
		q += "(assert " + f + ")\n"
	}
	var small []string
	for _, t := range need {
		switch m.sortHint[t] {
		case "Val":
			small = append(small, "(valSmall "+t+")")
		case "Slice":
			small = append(small, "(sliceSmall "+t+")")
		}
		if h, ok := m.typeHint[t]; ok && h != "true" {
			small = append(small, h)
		}
	}
	// hint levels, strongest first; the level that succeeds is committed for later rounds
	type level struct{ extra []string }
	var levels []level
	if !m.hintsCommitted {
		levels = append(levels,
			level{append(append(append([]string{}, small...), m.tr.firstIterHints...), m.tr.callHints...)},
			level{append(append([]string{}, small...), m.tr.firstIterHints...)},
			level{append([]string{}, m.tr.firstIterHints...)})
	}
	levels = append(levels, level{small}, level{nil})
	cfg := *m.c.cfg
	cfg.Race = false
	if cfg.TimeoutMs > 15000 {
		cfg.TimeoutMs = 15000
	}
	m.queries++
	tail := "(check-sat)\n(get-value (" + strings.Join(need, " ") + "))\n"
	var r solveResult
	for li, lv := range levels {
		qq := q
		for _, h := range lv.extra {
			qq += "(assert " + h + ")\n"
		}
		for _, s := range []string{"z3-new", "z3", "cvc5"} {
			r = runSolver(s, qq+tail, &cfg, true, fmt.Sprintf("model%d", m.queries))
			if r.status == "sat" {
				break
			}
		}
		if r.status == "sat" {
			if !m.hintsCommitted {
				m.hintsCommitted = true
				if li < 3 {
					for _, h := range lv.extra {
						if !strings.HasPrefix(h, "(valSmall") && !strings.HasPrefix(h, "(sliceSmall") {
							m.fixed = append(m.fixed, h)
						}
					}
				}
			}
			break
		}
	}
	if r.status != "sat" {
		m.failed = true
		return false
	}
	parsed := parseSx(r.model)
	if len(parsed) == 0 || parsed[0].list == nil {
		m.failed = true
		return false
	}
	pairs := parsed[0].list
	for i, p := range pairs {
		if p.list == nil || len(p.list) != 2 || i >= len(need) {
			continue
		}
		m.cache[need[i]] = p.list[1]
		// pin the value so later rounds stay in the same model
		m.fixed = append(m.fixed, fmt.Sprintf("(= %s %s)", need[i], p.list[1].String()))
	}
	return true
}

// modelStrings: every string literal occurring in a full model (candidate map keys).
func (m *modelEval) modelStrings() []string {
	if m.strs != nil {
		return m.strs
	}
	m.strs = []string{}
	q := m.base
	for _, f := range m.fixed {
		q += "(assert " + f + ")\n"
	}
	cfg := *m.c.cfg
	cfg.Race = false
	if cfg.TimeoutMs > 15000 {
		cfg.TimeoutMs = 15000
	}
	m.queries++
	var r solveResult
	for _, s := range []string{"z3-new", "z3"} {
		r = runSolver(s, q+"(check-sat)\n(get-model)\n", &cfg, true, fmt.Sprintf("fullmodel%d", m.queries))
		if r.status == "sat" {
			break
		}
	}
	if r.status != "sat" {
		return m.strs
	}
	seen := map[string]bool{}
	txt := r.model
	for i := 0; i < len(txt); i++ {
		if txt[i] != '"' {
			continue
		}
		j := i + 1
		for j < len(txt) {
			if txt[j] == '"' {
				if j+1 < len(txt) && txt[j+1] == '"' {
					j += 2
					continue
				}
				break
			}
			j++
		}
		lit := txt[i : j+1]
		if !seen[lit] && len(lit) < 60 {
			seen[lit] = true
			m.strs = append(m.strs, lit)
		}
		i = j
	}
	sort.Strings(m.strs)
	if len(m.strs) > 24 {
		m.strs = m.strs[:24]
	}
	return m.strs
}

// finiteMap asks for a model in which map id has a small explicit domain whose size is its length
// (the VC keeps len and domain as separate abstractions; the real code cannot).
func (m *modelEval) finiteMap(tr *Tr, u *types.Map, id int64) {
	if tr.eng.sorts.sortOf(u.Key()) != "String" {
		return
	}
	dom, _, ln := tr.mapComps(u)
	hd, hl := tr.initHeap[dom.name], tr.initHeap[ln.name]
	if hd == nil || hl == nil {
		return
	}
	cands := append([]string{`"a"`, `"b"`}, m.modelStrings()...)
	seen := map[string]bool{}
	var uniq []string
	for _, c := range cands {
		if !seen[c] {
			seen[c] = true
			uniq = append(uniq, c)
		}
	}
	var alts, sum []string
	for _, c := range uniq {
		alts = append(alts, fmt.Sprintf("(= k %s)", c))
		sum = append(sum, fmt.Sprintf("(ite (%s %d %s) 1 0)", hd.fname, id, c))
	}
	cons := fmt.Sprintf("(and (forall ((k String)) (=> (%s %d k) (or %s))) (= (%s %d) (+ 0 %s)))", hd.fname, id, strings.Join(alts, " "), hl.fname, id, strings.Join(sum, " "))
	// keep it only if still satisfiable
	q := m.base
	for _, f := range m.fixed {
		q += "(assert " + f + ")\n"
	}
	cfg := *m.c.cfg
	cfg.Race = false
	if cfg.TimeoutMs > 10000 {
		cfg.TimeoutMs = 10000
	}
	m.queries++
	r := runSolver("z3-new", q+"(assert "+cons+")\n(check-sat)\n", &cfg, false, fmt.Sprintf("finmap%d", m.queries))
	if r.status == "sat" {
		m.fixed = append(m.fixed, cons)
	}
}

func (m *modelEval) get(t Term) *sx {
	if v, ok := m.cache[t]; ok {
		return v
	}
	m.eval([]Term{t})
	return m.cache[t]
}

// ---- Go value construction -------------------------------------------------

type goBuilder struct {
	m       *modelEval
	tr      *Tr
	pkg     *types.Package // package of the test
	imports map[string]string
	stmts   []string
	arrays  map[string]string // "comp/arrid" -> var name
	maps    map[string]string
	ptrs    map[string]string
	assigned map[string]bool
	depth   int
	notes   []string
	n       int
}

func (g *goBuilder) qual(p *types.Package) string {
	if p == nil || p == g.pkg {
		return ""
	}
	g.imports[p.Path()] = p.Name()
	return p.Name()
}

func (g *goBuilder) typeName(t types.Type) string { return types.TypeString(t, g.qual) }

func (g *goBuilder) fresh(prefix string) string {
	g.n++
	return fmt.Sprintf("%s%d", prefix, g.n)
}

// valueOf builds a Go expression for model value v of Go type t.
func (g *goBuilder) valueOf(v *sx, t types.Type, depth int) string {
	if v == nil {
		return g.zeroOf(t)
	}
	sorts := g.tr.eng.sorts
	switch u := t.Underlying().(type) {
	case *types.Basic:
		switch {
		case u.Info()&types.IsBoolean != 0:
			return v.atom
		case u.Info()&types.IsString != 0:
			return strconv.Quote(smtStringToGo(v.atom))
		case u.Info()&types.IsInteger != 0:
			n, _ := v.intVal()
			if n > 1<<40 || n < -(1<<40) {
				n = n % 1000
			}
			return fmt.Sprintf("%s(%d)", g.typeName(t), n)
		default:
			return g.zeroOf(t)
		}
	case *types.Interface:
		h := v.head()
		if h == "VNil" {
			return "nil"
		}
		if h == "VOther" {
			// a foreign dynamic type: errors are the only ones that matter
			if types.Implements(types.Universe.Lookup("error").Type(), u) || u.NumMethods() == 0 {
				if len(v.list) == 3 {
					code, _ := v.list[1].intVal()
					if int(code) == sorts.otherCodes["goerror"] || int(code) == sorts.otherCodes["runtime.Error"] {
						g.imports["errors"] = "errors"
						return `errors.New("replay-error")`
					}
				}
			}
			if u.NumMethods() == 0 {
				return "struct{ Opaque int }{1}"
			}
			return "nil"
		}
		for _, k := range sorts.ctorOrd {
			c := sorts.ctors[k]
			if c.ctor == h && len(v.list) == 2 {
				if isContext(t) {
					break
				}
				return g.convertTo(t, g.valueOf(v.list[1], c.gotype, depth), c.gotype)
			}
		}
		if isContext(t) {
			g.imports["context"] = "context"
			return "context.Background()"
		}
		if typeStr(t) == "types.EnvType" {
			g.imports[modulePath+"/env"] = "env"
			return "env.NewEnv()"
		}
		return "nil"
	case *types.Slice:
		return g.sliceOf(v, u, t, depth)
	case *types.Map:
		return g.mapOf(v, u, t, depth)
	case *types.Pointer:
		n, _ := v.intVal()
		if n == 0 {
			return "nil"
		}
		if typeStr(t) == "*env.Env" {
			g.imports[modulePath+"/env"] = "env"
			return "env.NewEnv().(*env.Env)"
		}
		if depth > 3 {
			return "nil"
		}
		key := typeKey(u.Elem()) + "/" + fmt.Sprint(n)
		if name, ok := g.ptrs[key]; ok {
			return name
		}
		name := g.fresh("ptr")
		g.ptrs[key] = name
		if !exportedOrLocal(u.Elem(), g.pkg) {
			return "nil"
		}
		if _, isStruct := u.Elem().Underlying().(*types.Struct); isStruct && inModule(u.Elem()) {
			comp := g.tr.cellComp(u.Elem())
			g.m.typeHint[g.initRead(comp, IntLit(n))] = g.tr.eng.sorts.smallTerm(u.Elem(), g.initRead(comp, IntLit(n)), 0)
			cell := g.m.get(g.initRead(comp, IntLit(n)))
			g.stmts = append(g.stmts, fmt.Sprintf("%s := new(%s)", name, g.typeName(u.Elem())))
			if cell != nil {
				g.stmts = append(g.stmts, fmt.Sprintf("*%s = %s", name, g.valueOf(cell, u.Elem(), depth+1)))
			}
		} else {
			g.stmts = append(g.stmts, fmt.Sprintf("%s := new(%s)", name, g.typeName(u.Elem())))
		}
		return name
	case *types.Struct:
		si := sorts.structOf(t)
		if si == nil || v.list == nil || len(v.list) != len(si.fields)+1 {
			return g.zeroOf(t)
		}
		if !exportedOrLocal(t, g.pkg) {
			return g.zeroOf(t)
		}
		var fs []string
		for i := 0; i < u.NumFields(); i++ {
			f := u.Field(i)
			if !f.Exported() && (f.Pkg() != g.pkg) {
				continue
			}
			if _, isSig := f.Type().Underlying().(*types.Signature); isSig {
				continue
			}
			if f.Name() == "Cursor" || f.Name() == "Meta" {
				continue
			}
			fs = append(fs, fmt.Sprintf("%s: %s", f.Name(), g.valueOf(v.list[i+1], f.Type(), depth+1)))
		}
		return fmt.Sprintf("%s{%s}", g.typeName(t), strings.Join(fs, ", "))
	case *types.Signature:
		return "nil"
	}
	return g.zeroOf(t)
}

func exportedOrLocal(t types.Type, pkg *types.Package) bool {
	if n, ok := t.(*types.Named); ok {
		return n.Obj().Exported() || n.Obj().Pkg() == pkg
	}
	return true
}

func isContext(t types.Type) bool { return typeStr(t) == "context.Context" }

func (g *goBuilder) convertTo(target types.Type, expr string, from types.Type) string {
	return expr
}

func (g *goBuilder) zeroOf(t types.Type) string {
	switch u := t.Underlying().(type) {
	case *types.Basic:
		switch {
		case u.Info()&types.IsBoolean != 0:
			return "false"
		case u.Info()&types.IsString != 0:
			return `""`
		case u.Info()&types.IsNumeric != 0:
			return g.typeName(t) + "(0)"
		}
	case *types.Struct:
		if exportedOrLocal(t, g.pkg) {
			return g.typeName(t) + "{}"
		}
	}
	if isContext(t) {
		g.imports["context"] = "context"
		return "context.Background()"
	}
	return "nil"
}

func (g *goBuilder) initRead(c *Component, key ...Term) Term {
	h := g.tr.initHeap[c.name]
	if h == nil {
		return ""
	}
	return app(h.fname, key...)
}

func (g *goBuilder) sliceOf(v *sx, u *types.Slice, t types.Type, depth int) string {
	if v.list == nil || len(v.list) != 5 {
		return "nil"
	}
	arr, _ := v.list[1].intVal()
	off, _ := v.list[2].intVal()
	ln, _ := v.list[3].intVal()
	cp, _ := v.list[4].intVal()
	if arr == 0 {
		return fmt.Sprintf("%s(nil)", g.typeName(t))
	}
	if off < 0 || ln < 0 || cp < ln || off+cp > 64 {
		g.notes = append(g.notes, fmt.Sprintf("slice header too large for replay: off=%d len=%d cap=%d", off, ln, cp))
		if off+cp > 64 {
			cp = ln
			if off+cp > 64 {
				return fmt.Sprintf("%s(nil)", g.typeName(t))
			}
		}
	}
	comp := g.tr.elemComp(u.Elem())
	key := comp.name + "/" + fmt.Sprint(arr)
	name, ok := g.arrays[key]
	if !ok {
		name = g.fresh("arr")
		g.arrays[key] = name
		g.stmts = append(g.stmts, fmt.Sprintf("%s := make(%s, %d)", name, g.typeName(t), 64))
		if isInterface(u.Elem()) {
			// cells outside every visible window hold recognisable sentinels, so that a write
			// into spare capacity is observable
			g.imports["fmt"] = "fmt"
			g.stmts = append(g.stmts, fmt.Sprintf("for i := range %s { %s[i] = fmt.Sprintf(\"sentinel-%%d\", i) }", name, name))
		}
	}
	if depth <= 3 && g.initRead(comp, "0", "0") != "" {
		var terms []Term
		hi := off + ln
		if hi > off+6 {
			hi = off + 6
		}
		for i := off; i < hi; i++ {
			rt := g.initRead(comp, IntLit(arr), IntLit(i))
			terms = append(terms, rt)
			g.m.sortHint[rt] = comp.valSort
			if !isInterface(u.Elem()) {
				g.m.typeHint[rt] = g.tr.eng.sorts.smallTerm(u.Elem(), rt, 0)
			}
		}
		g.m.eval(terms)
		for i := off; i < hi; i++ {
			cellKey := fmt.Sprintf("%s[%d]", name, i)
			if g.assigned[cellKey] {
				continue
			}
			g.assigned[cellKey] = true
			ev := g.m.cache[g.initRead(comp, IntLit(arr), IntLit(i))]
			if ev != nil {
				g.stmts = append(g.stmts, fmt.Sprintf("%s = %s", cellKey, g.valueOf(ev, u.Elem(), depth+1)))
			}
		}
	}
	return fmt.Sprintf("%s[%d:%d:%d]", name, off, off+ln, off+cp)
}

func (g *goBuilder) mapOf(v *sx, u *types.Map, t types.Type, depth int) string {
	id, _ := v.intVal()
	if id == 0 {
		return fmt.Sprintf("%s(nil)", g.typeName(t))
	}
	dom, val, _ := g.tr.mapComps(u)
	key := dom.name + "/" + fmt.Sprint(id)
	if name, ok := g.maps[key]; ok {
		return name
	}
	name := g.fresh("m")
	g.maps[key] = name
	g.stmts = append(g.stmts, fmt.Sprintf("%s := %s{}", name, g.typeName(t)))
	g.m.finiteMap(g.tr, u, id)
	// candidate keys: every key term that the VC reads in this component
	h := g.tr.initHeap[dom.name]
	if h == nil || depth > 3 {
		return name
	}
	var keyTerms []Term
	for mk := range h.memo {
		parts := strings.Split(mk, "\x00")
		if len(parts) == 2 && !strings.HasPrefix(parts[1], "q_") {
			keyTerms = append(keyTerms, parts[0], parts[1])
		}
	}
	sort.Strings(keyTerms)
	g.m.eval(keyTerms)
	seen := map[string]bool{}
	if g.tr.eng.sorts.sortOf(u.Key()) == "String" {
		// keys that only exist as quantifier witnesses: try every string literal of the model
		var cands []Term
		for _, lit := range g.m.modelStrings() {
			cands = append(cands, app(h.fname, IntLit(id), lit))
		}
		g.m.eval(cands)
		for _, lit := range g.m.modelStrings() {
			in := g.m.cache[app(h.fname, IntLit(id), lit)]
			if in == nil || in.atom != "true" || seen[lit] {
				continue
			}
			seen[lit] = true
			valExpr := g.zeroOf(u.Elem())
			if hv := g.tr.initHeap[val.name]; hv != nil {
				valExpr = g.valueOf(g.m.get(app(hv.fname, IntLit(id), lit)), u.Elem(), depth+1)
			}
			g.stmts = append(g.stmts, fmt.Sprintf("%s[%s] = %s", name, strconv.Quote(smtStringToGo(strings.Trim(lit, "\""))), valExpr))
		}
	}
	for mk := range h.memo {
		parts := strings.Split(mk, "\x00")
		if len(parts) != 2 || strings.HasPrefix(parts[1], "q_") {
			continue
		}
		mv, kv := g.m.cache[parts[0]], g.m.cache[parts[1]]
		if mv == nil || kv == nil {
			continue
		}
		if n, _ := mv.intVal(); n != id {
			continue
		}
		ks := kv.String()
		if seen[ks] {
			continue
		}
		seen[ks] = true
		in := g.m.get(app(h.fname, IntLit(id), ks))
		if in == nil || in.atom != "true" {
			continue
		}
		var valExpr string
		if hv := g.tr.initHeap[val.name]; hv != nil {
			valExpr = g.valueOf(g.m.get(app(hv.fname, IntLit(id), ks)), u.Elem(), depth+1)
		} else {
			valExpr = g.zeroOf(u.Elem())
		}
		g.stmts = append(g.stmts, fmt.Sprintf("%s[%s] = %s", name, g.valueOf(kv, u.Key(), depth+1), valExpr))
	}
	return name
}

// ---- driver ----------------------------------------------------------------

func (c *CheckCtx) tryReplay(f *Failure, b *strings.Builder) {
	f.Confirm = "no-model"
	o, tr := f.Obl, f.Tr
	if o.Result != "sat" && os.Getenv("GOVC_REPLAY_UNKNOWN") == "" {
		fmt.Fprintf(b, "replay: the solvers returned %s: no model to replay\n", o.Result)
		return
	}
	root := tr.root
	if root.Parent() != nil {
		fmt.Fprintf(b, "replay: %s is a closure; no direct call harness\n", fnName(root))
		return
	}
	kind := o.Kind
	oracle := ""
	switch {
	case strings.HasPrefix(kind, "nopanic/"):
		oracle = "nopanic"
	case kind == "frame/store":
		oracle = "frame"
	default:
		if c.prop.ReplayOracle != nil {
			oracle = c.prop.ReplayOracle(o)
		}
	}
	if oracle == "" {
		fmt.Fprintf(b, "replay: no run-time oracle for obligation kind %s\n", kind)
		return
	}
	tr.indexObls()
	base := tr.preludeFor(true, o) + fmt.Sprintf("(assert (and %s (not %s)))\n", o.Guard, o.Goal)
	// prefer small models
	var hints []string
	for i, p := range root.Params {
		x := tr.rootAct.args[i]
		switch p.Type().Underlying().(type) {
		case *types.Slice:
			hints = append(hints, fmt.Sprintf("(<= (s_len %s) 3)", x), fmt.Sprintf("(<= (s_cap %s) 4)", x), fmt.Sprintf("(<= (s_off %s) 2)", x), fmt.Sprintf("(<= (s_arr %s) 20)", x))
		case *types.Basic:
			if a := tr.rootAct.sortOf(p.Type()); a == "Int" {
				hints = append(hints, fmt.Sprintf("(<= (- 3) %s 6)", x))
			}
		}
	}
	hints = append(hints, fmt.Sprintf("(<= %s 40)", tr.alloc0))
	m := &modelEval{c: c, tr: tr, cache: map[Term]*sx{}, sortHint: map[Term]string{}, typeHint: map[Term]string{}}
	for i, p := range root.Params {
		m.sortHint[tr.rootAct.args[i]] = tr.rootAct.sortOf(p.Type())
	}
	tryBase := base
	for _, h := range hints {
		tryBase += "(assert " + h + ")\n"
	}
	m.base = tryBase
	if !m.eval(tr.rootAct.args) {
		m = &modelEval{c: c, tr: tr, cache: map[Term]*sx{}, base: base, sortHint: map[Term]string{}, typeHint: map[Term]string{}}
		if !m.eval(tr.rootAct.args) {
			fmt.Fprintf(b, "replay: could not obtain a model with get-value\n")
			return
		}
	}
	pkg := c.eng.pkgOf(root)
	if pkg == nil {
		return
	}
	for attempt := 0; attempt < 1; attempt++ {
		g := &goBuilder{m: m, tr: tr, pkg: pkg.Types, imports: map[string]string{"testing": "testing"}, arrays: map[string]string{}, maps: map[string]string{}, ptrs: map[string]string{}, assigned: map[string]bool{}}
		var argExprs []string
		for i, p := range root.Params {
			argExprs = append(argExprs, g.valueOf(m.cache[tr.rootAct.args[i]], p.Type(), 0))
		}
		src := g.testSource(root, argExprs, oracle, o)
		fmt.Fprintf(b, "\n--- model read back as Go (arguments of %s) ---\n", fnName(root))
		for _, s := range g.stmts {
			fmt.Fprintf(b, "  %s\n", s)
		}
		fmt.Fprintf(b, "  call: %s(%s)\n", root.Name(), strings.Join(argExprs, ", "))
		for _, n := range g.notes {
			fmt.Fprintf(b, "  note: %s\n", n)
		}
		fmt.Fprintf(b, "  raw model values:\n")
		var ks []string
		for k := range m.cache {
			ks = append(ks, k)
		}
		sort.Strings(ks)
		for _, k := range ks {
			fmt.Fprintf(b, "    %s = %s\n", k, m.cache[k].String())
		}
		out, confirmed, ran := c.runReplayTest(pkg.PkgPath, pkg.Name, src)
		fmt.Fprintf(b, "\n--- replay test (go test -overlay, real code) ---\n%s\n--- output ---\n%s\n", src, out)
		if !ran {
			f.Confirm = "replay-did-not-build"
			fmt.Fprintf(b, "replay: the generated test did not build or run\n")
			return
		}
		if confirmed {
			f.Confirm = "confirmed"
			fmt.Fprintf(b, "replay: CONFIRMED on the real code\n")
			return
		}
		f.Confirm = "not-confirmed"
		fmt.Fprintf(b, "replay: the model did not reproduce the failure on the real code\n")
	}
}

func (g *goBuilder) testSource(root *ssa.Function, args []string, oracle string, o *Obligation) string {
	var b strings.Builder
	pkgName := g.pkg.Name()
	callee := root.Name()
	if recv := root.Signature.Recv(); recv != nil {
		// method: first arg is the receiver
		callee = "(" + args[0] + ")." + root.Name()
		args = args[1:]
	}
	variadic := root.Signature.Variadic()
	call := fmt.Sprintf("%s(%s)", callee, strings.Join(args, ", "))
	if variadic && len(args) > 0 {
		call = fmt.Sprintf("%s(%s...)", callee, strings.Join(args, ", "))
	}
	var body strings.Builder
	for _, s := range g.stmts {
		body.WriteString("\t" + s + "\n")
	}
	nres := root.Signature.Results().Len()
	lhs := ""
	if nres > 0 {
		parts := make([]string, nres)
		for i := range parts {
			parts[i] = "_"
		}
		lhs = strings.Join(parts, ", ") + " = "
	}
	switch oracle {
	case "nopanic":
		body.WriteString("\tdefer func() {\n\t\tif r := recover(); r != nil {\n\t\t\tt.Fatalf(\"REPLAY-CONFIRMED: panic escaped: %v\", r)\n\t\t}\n\t}()\n")
		body.WriteString("\t" + lhs + call + "\n")
	case "frame":
		g.imports["reflect"] = "reflect"
		g.imports["fmt"] = "fmt"
		// snapshot every backing array (to full length) and map built above
		var names []string
		for _, n := range g.arrays {
			names = append(names, n)
		}
		for _, n := range g.maps {
			names = append(names, n)
		}
		sort.Strings(names)
		body.WriteString("\tsnap := func() string { return fmt.Sprintf(\"%#v\", []interface{}{" + strings.Join(names, ", ") + "}) }\n")
		body.WriteString("\tbefore := snap()\n")
		body.WriteString("\tfunc() {\n\t\tdefer func() { recover() }()\n\t\t" + lhs + call + "\n\t}()\n")
		body.WriteString("\tif after := snap(); after != before {\n\t\tt.Fatalf(\"REPLAY-CONFIRMED: a pre-existing container was written:\\nbefore %s\\nafter  %s\", before, after)\n\t}\n\t_ = reflect.DeepEqual\n")
	default:
		body.WriteString(g.customOracle(oracle, root, args, call))
	}
	fmt.Fprintf(&b, "package %s\n\nimport (\n", pkgName)
	var imps []string
	for path, name := range g.imports {
		imps = append(imps, fmt.Sprintf("\t%s %q\n", name, path))
	}
	sort.Strings(imps)
	for _, i := range imps {
		b.WriteString(i)
	}
	fmt.Fprintf(&b, ")\n\n// obligation: %s\nfunc TestGovcReplay(t *testing.T) {\n%s}\n", o.Name, body.String())
	return b.String()
}

func (g *goBuilder) customOracle(oracle string, root *ssa.Function, args []string, call string) string {
	if f, ok := customOracles[oracle]; ok {
		return f(g, root, args, call)
	}
	return "\tt.Skip(\"no oracle\")\n"
}

var customOracles = map[string]func(g *goBuilder, root *ssa.Function, args []string, call string) string{}

// runReplayTest injects the test into pkgPath with an overlay and runs it.
func (c *CheckCtx) runReplayTest(pkgPath, pkgName, src string) (string, bool, bool) {
	dir, err := os.MkdirTemp(c.scratch, "replay-")
	if err != nil {
		return err.Error(), false, false
	}
	defer os.RemoveAll(dir)
	rel := strings.TrimPrefix(strings.TrimPrefix(pkgPath, modulePath), "/")
	target := filepath.Join(c.eng.repo, rel, "zz_govc_replay_test.go")
	testFile := filepath.Join(dir, "replay_test.go")
	os.WriteFile(testFile, []byte(src), 0o644)
	ov, _ := json.Marshal(map[string]any{"Replace": map[string]string{target: testFile}})
	ovFile := filepath.Join(dir, "overlay.json")
	os.WriteFile(ovFile, ov, 0o644)
	ctx, cancel := context.WithTimeout(context.Background(), 120*time.Second)
	defer cancel()
	cmd := exec.CommandContext(ctx, "go", "test", "-tags", "verif", "-overlay", ovFile, "-vet=off", "-count=1", "-timeout", "60s", "-run", "^TestGovcReplay$", "./"+rel)
	cmd.Dir = c.eng.repo
	cmd.Env = goEnv()
	var out bytes.Buffer
	cmd.Stdout = &out
	cmd.Stderr = &out
	cmd.Run()
	txt := out.String()
	if len(txt) > 6000 {
		txt = txt[:6000] + "\n...[truncated]"
	}
	confirmed := strings.Contains(txt, "REPLAY-CONFIRMED")
	ran := strings.Contains(txt, "--- FAIL") || strings.Contains(txt, "\nok ") || strings.HasPrefix(txt, "ok ") || strings.Contains(txt, "PASS") || strings.Contains(txt, "panic:")
	if strings.Contains(txt, "panic:") && !confirmed && strings.Contains(src, "panic escaped") {
		confirmed = true
	}
	return txt, confirmed, ran
}

func (c *CheckCtx) scratchBase() string { return filepath.Dir(c.scratch) }

func init() {
	// C14: compare Equal_Q with an independent structural equality written from the statement
	customOracles["c14-eq"] = func(g *goBuilder, root *ssa.Function, args []string, call string) string {
		g.imports["reflect"] = "reflect"
		q := func(name string) string {
			t := g.tr.eng.namedType("types", name)
			if t == nil {
				return name
			}
			return g.typeName(t)
		}
		var b strings.Builder
		b.WriteString("\tvar seqOf func(v interface{}) ([]" + q("MalType") + ", bool)\n")
		b.WriteString("\tseqOf = func(v interface{}) ([]" + q("MalType") + ", bool) {\n\t\tswitch x := v.(type) {\n\t\tcase " + q("List") + ":\n\t\t\treturn x.Val, true\n\t\tcase " + q("Vector") + ":\n\t\t\treturn x.Val, true\n\t\t}\n\t\treturn nil, false\n\t}\n")
		b.WriteString("\tvar eq func(a, b interface{}) bool\n\teq = func(a, b interface{}) bool {\n")
		b.WriteString("\t\tas, aok := seqOf(a)\n\t\tbs, bok := seqOf(b)\n\t\tif aok && bok {\n\t\t\tif len(as) != len(bs) {\n\t\t\t\treturn false\n\t\t\t}\n\t\t\tfor i := range as {\n\t\t\t\tif !eq(as[i], bs[i]) {\n\t\t\t\t\treturn false\n\t\t\t\t}\n\t\t\t}\n\t\t\treturn true\n\t\t}\n")
		b.WriteString("\t\tif reflect.TypeOf(a) != reflect.TypeOf(b) {\n\t\t\treturn false\n\t\t}\n\t\tswitch x := a.(type) {\n")
		b.WriteString("\t\tcase " + q("Symbol") + ":\n\t\t\treturn x.Val == b.(" + q("Symbol") + ").Val\n")
		b.WriteString("\t\tcase " + q("HashMap") + ":\n\t\t\ty := b.(" + q("HashMap") + ")\n\t\t\tfor k, v := range x.Val {\n\t\t\t\tw, ok := y.Val[k]\n\t\t\t\tif !ok || !eq(v, w) {\n\t\t\t\t\treturn false\n\t\t\t\t}\n\t\t\t}\n\t\t\tfor k := range y.Val {\n\t\t\t\tif _, ok := x.Val[k]; !ok {\n\t\t\t\t\treturn false\n\t\t\t\t}\n\t\t\t}\n\t\t\treturn true\n")
		b.WriteString("\t\tcase " + q("Set") + ":\n\t\t\ty := b.(" + q("Set") + ")\n\t\t\tfor k := range x.Val {\n\t\t\t\tif _, ok := y.Val[k]; !ok {\n\t\t\t\t\treturn false\n\t\t\t\t}\n\t\t\t}\n\t\t\tfor k := range y.Val {\n\t\t\t\tif _, ok := x.Val[k]; !ok {\n\t\t\t\t\treturn false\n\t\t\t\t}\n\t\t\t}\n\t\t\treturn true\n")
		b.WriteString("\t\t}\n\t\treturn a == b\n\t}\n")
		fmt.Fprintf(&b, "\tgot := %s\n\twant := eq(%s, %s)\n", call, args[0], args[1])
		b.WriteString("\tif got != want {\n\t\tt.Fatalf(\"REPLAY-CONFIRMED: Equal_Q returned %v, structural equality is %v\", got, want)\n\t}\n")
		return b.String()
	}
}
