package main

// Translator: go/ssa function body -> SMT definitions, assumptions, obligations.

import (
	"fmt"
	"go/constant"
	"go/token"
	"go/types"
	"os"
	"sort"
	"strings"

	"golang.org/x/tools/go/ssa"
)

type Obligation struct {
	Name   string // stable name: pkg.func/kind/«source»#n
	Kind   string
	Fn     string
	Pos    string
	Src    string
	Guard  Term
	Goal   Term
	Info   map[string]Term // terms of interest for model read-back
	Cand   *Assumption     // if this obligation decides a Houdini candidate
	Tree   *GoalTree       // the goal as a decision tree (optional; same meaning as Goal)
	fullGoal Term
	SpecBroken bool // its clause named something that does not resolve in this tree
	Dead     bool // the path condition is refuted by the assumptions: discharged vacuously
	seq      int // position in generation order (1-based)
	Result string          // unsat|sat|unknown
	Solver string
	TimeMs int64
	Model  string
}

type Assumption struct {
	MinObl    int // a cut: available to obligations with seq >= MinObl only (0: to all)
	ID        int
	Term      Term
	Candidate bool
	Alive     bool
	Why       string
}

type State struct {
	reach  Term
	heap   map[string]*HeapV
	alloc  Term
	defers map[*ssa.Defer]Term // site -> Bool "registered and pending"
	prov   *prov
	esc    map[string]escRec // containers handed to code that may retain them
	owned  map[string]ownedCell // cells allocated by the running activations whose address has not been given away
}

type escRec struct {
	cond Term
	id   Term
}

// immutableCells: struct cells whose fields are only assigned while the object is fresh and unpublished.
var immutableCells = map[string]bool{"cell:env_Env": true}

type mapLenRec struct {
	m, l Term
	dom  *HeapV
}

type readsAtSnap struct {
	st    *State
	block *ssa.BasicBlock
}

type ownedCell struct {
	addr Term
	comp string
}

func (s *State) copy() *State {
	n := &State{reach: s.reach, alloc: s.alloc, prov: s.prov, heap: make(map[string]*HeapV, len(s.heap)), defers: make(map[*ssa.Defer]Term, len(s.defers))}
	for k, v := range s.heap {
		n.heap[k] = v
	}
	for k, v := range s.defers {
		n.defers[k] = v
	}
	n.esc = make(map[string]escRec, len(s.esc))
	for k, v := range s.esc {
		n.esc[k] = v
	}
	n.owned = make(map[string]ownedCell, len(s.owned))
	for k, v := range s.owned {
		n.owned[k] = v
	}
	return n
}

// keepOwned: predicate "key is the address of a cell of component comp that is still owned".
func (s *State) keepOwned(comp string) func(key []Term) Term {
	var addrs []Term
	for _, k := range sortedKeys(s.owned) {
		if s.owned[k].comp == comp {
			addrs = append(addrs, s.owned[k].addr)
		}
	}
	if len(addrs) == 0 {
		return nil
	}
	return func(key []Term) Term {
		var alts []Term
		for _, a := range addrs {
			alts = append(alts, Eq(key[0], a))
		}
		return Or(alts...)
	}
}

// havocCells replaces a non-value shared component by a fresh version that keeps owned cells.
func (tr *Tr) havocCells(st *State, c *Component, hint string) {
	prev := tr.heapOf(st, c)
	if keep := st.keepOwned(c.name); keep != nil {
		st.heap[c.name] = tr.heapFrame(prev, keep, hint+"_"+c.name)
	} else {
		st.heap[c.name] = tr.newHeapBase(c, hint+"_"+c.name)
	}
}

type Tr struct {
	eng       *Engine
	root      *ssa.Function
	rootAct   *Act
	decls     []string
	assumes   []*Assumption
	obls      []*Obligation
	hcount    int
	rcount    int
	fresh     int
	boundVars []string
	comps     map[string]*Component
	alloc0    Term
	oblCount  map[string]int
	panicMode string // "obligation" | "ignore"
	frameMode bool   // emit frame/store obligations
	assignOK  []func(id Term) Term
	unsupported []string
	contract  *FuncContract
	initHeap  map[string]*HeapV
	notes     []string
	usedStubs map[string]bool
	inlined   map[string]bool
	havocked  map[string]bool
	declared  map[string]bool
	predecls  []string
	unfolded  map[string]bool
	specErrs  []string
	escalations int64 // obligations retried with a longer time limit
	errAt     []int // number of obligations that existed when a contract clause failed to evaluate
	clauseFilter func(c *clause) bool
	usedContracts map[string]bool
	closuresSeen []*Closure
	lockMode  bool
	inlineBudget int
	valOKText string
	specDefs  map[string]string
	noUserInv bool
	noContracts bool
	noTimeouts bool
	globalStoreGuard func(a *Act, st *State, g *ssa.Global) Term
	quietReads       bool
	tailFn           string // name of the abstract outcome function of the tail-recursive loop being translated
	prop      string
	piTerm    Term
	coverResult string
	typeInvMode bool
	callHints []Term
	mapLens   []mapLenRec
	atDone map[string]bool
	usedAssumed map[string]bool
	firstIterHints []Term // replay preference: loop-head state of the first iteration
	isRoot    func(fn *ssa.Function) bool // obligations inside inlined copies of these are dropped
}

func (tr *Tr) declare(s string) { tr.decls = append(tr.decls, s) }

func (tr *Tr) freshName(hint string) string {
	tr.fresh++
	return fmt.Sprintf("%s_%d", mangle(hint), tr.fresh)
}

func (tr *Tr) freshConst(hint, sort string) Term {
	n := tr.freshName(hint)
	tr.declare(fmt.Sprintf("(declare-const %s %s)", n, sort))
	return n
}

func (tr *Tr) define(hint, sort string, t Term) Term {
	if len(t) < 24 && !strings.ContainsAny(t, " ") {
		return t
	}
	if tr.openTerm(t) {
		return t
	}
	n := tr.freshName(hint)
	tr.declare(fmt.Sprintf("(define-fun %s () %s %s)", n, sort, t))
	return n
}

func (tr *Tr) assume(t Term, why string) *Assumption {
	if t == "true" {
		return nil
	}
	a := &Assumption{ID: len(tr.assumes), Term: t, Alive: true, Why: why}
	tr.assumes = append(tr.assumes, a)
	return a
}

func (tr *Tr) unsupp(format string, args ...any) {
	tr.unsupported = append(tr.unsupported, fmt.Sprintf(format, args...))
}

func (tr *Tr) comp(name string, keySorts []string, valSort string, value bool) *Component {
	if c, ok := tr.comps[name]; ok {
		return c
	}
	if name == "ghost:W" {
		valSort = "World"
	}
	c := &Component{name: name, keySorts: keySorts, valSort: valSort, value: value}
	if name == "ghost:sent" || name == "ghost:applied" {
		c.local = true // counts the events of this activation only; callees cannot change it
	}
	tr.comps[name] = c
	return c
}

func isValueElem(t types.Type) bool {
	// element / value types whose containers are lisp values (C02)
	s := typeStr(t)
	return s == "types.MalType" || s == "struct{}"
}

func (tr *Tr) elemComp(elem types.Type) *Component {
	c := tr.comp("elem:"+typeKey(elem), []string{"Int", "Int"}, tr.eng.sorts.sortOf(elem), isValueElem(elem))
	c.gotype = elem
	return c
}

func (tr *Tr) cellComp(t types.Type) *Component {
	c := tr.comp("cell:"+typeKey(t), []string{"Int"}, tr.eng.sorts.sortOf(t), false)
	c.gotype = t
	return c
}

func (tr *Tr) mapComps(m *types.Map) (dom, val, ln *Component) {
	k := typeKey(m)
	ks := tr.eng.sorts.sortOf(m.Key())
	isVal := typeStr(m.Key()) == "string" && isValueElem(m.Elem())
	dom = tr.comp("mdom:"+k, []string{"Int", ks}, "Bool", isVal)
	val = tr.comp("mval:"+k, []string{"Int", ks}, tr.eng.sorts.sortOf(m.Elem()), isVal)
	val.gotype = m.Elem()
	ln = tr.comp("mlen:"+k, []string{"Int"}, "Int", isVal)
	return
}

// prov records where a state came from, so that a heap component first touched later is
// resolved soundly (through joins and havocs) instead of falling back to the entry heap.
type prov struct {
	kind      string // "join" | "havoc"
	preds     []*State
	prev      *State
	all       bool            // havoc: every shared component may have changed
	mods      map[string]bool // havoc: components known to change
	keepValue func(key []Term) Term
	hint      string
	resolve   func(c *Component, prev *HeapV) *HeapV
	resolved  map[string]*HeapV // one resolution per provenance node, shared by every state derived from it
}

// heapOf returns the current version of component c in st (resolving it lazily).
func (tr *Tr) heapOf(st *State, c *Component) *HeapV {
	if h, ok := st.heap[c.name]; ok {
		return h
	}
	var h *HeapV
	if st.prov != nil {
		if st.prov.resolved == nil {
			st.prov.resolved = map[string]*HeapV{}
		}
		if r, ok := st.prov.resolved[c.name]; ok {
			st.heap[c.name] = r
			return r
		}
	}
	switch {
	case st.prov == nil:
		var ok bool
		h, ok = tr.initHeap[c.name]
		if !ok {
			h = tr.newHeapBase(c, "init_"+c.name)
			h.initial = !c.local
			tr.initHeap[c.name] = h
		}
	case st.prov.kind == "join":
		p := st.prov
		for i := len(p.preds) - 1; i >= 0; i-- {
			hv := tr.heapOf(p.preds[i], c)
			if h == nil {
				h = hv
			} else {
				h = tr.heapIte(p.preds[i].reach, hv, h)
			}
		}
	case st.prov.kind == "custom":
		h = st.prov.resolve(c, tr.heapOf(st.prov.prev, c))
	default: // havoc
		p := st.prov
		prev := tr.heapOf(p.prev, c)
		switch {
		case strings.HasPrefix(c.name, "ghost:lock"):
			h = prev // callees are lock-balanced (each is checked for lock/balance itself)
		case immutableCells[c.name] && p.keepValue != nil:
			// fields written only on fresh objects (lock/field-immutable, C11): existing objects keep theirs
			h = tr.heapFrame(prev, p.keepValue, p.hint+"_"+c.name)
		case c.local && !p.mods[c.name]:
			h = prev
		case !p.all && !p.mods[c.name]:
			h = prev
		case c.local:
			h = tr.newHeapBase(c, p.hint+"_"+c.name)
		case len(c.keySorts) == 0:
			h = tr.newHeapBase(c, p.hint+"_"+c.name)
		case c.value:
			h = tr.heapFrame(prev, p.keepValue, p.hint+"_"+c.name)
		default:
			if keep := p.prev.keepOwned(c.name); keep != nil {
				h = tr.heapFrame(prev, keep, p.hint+"_"+c.name)
			} else {
				h = tr.newHeapBase(c, p.hint+"_"+c.name)
			}
		}
	}
	if st.prov != nil && st.prov.kind != "join" && st.prov.prev != nil {
		if addrs := tr.eng.frozenAddrs[c.name]; len(addrs) > 0 && tr.eng.frozenActive(tr.prop) {
			// frozen package globals survive every havoc (calls, loops); see the frozen directive
			if before := tr.heapOf(st.prov.prev, c); before != h {
				h = tr.heapSel(func(key []Term) Term {
					var ds []Term
					for _, a := range addrs {
						ds = append(ds, Eq(key[0], a))
					}
					return Or(ds...)
				}, before, h)
			}
		}
	}
	if st.prov != nil {
		st.prov.resolved[c.name] = h
	}
	st.heap[c.name] = h
	return h
}

// ---------------------------------------------------------------------------

type lvKind int

const (
	lvCell lvKind = iota
	lvLocal
	lvField
	lvElem
)

type LV struct {
	kind  lvKind
	typ   types.Type // type of the designated location
	addr  Term       // lvCell
	comp  *Component // lvLocal: private component
	base  *LV        // lvField
	field int
	arr   Term // lvElem
	idx   Term
}

type Closure struct {
	fn       *ssa.Function
	bindings []ssa.Value
	act      *Act // activation that created it
	id       Term
}

type panicEdge struct {
	st  *State
	val Term
}

type retEdge struct {
	st      *State
	results []Term
}

type Act struct {
	readsAt  map[int][]readsAtSnap // loop ordinal -> captured states (readsat clauses)
	tr       *Tr
	fn       *ssa.Function
	parent   *Act
	depth    int
	prefix   string
	vals     map[ssa.Value]Term
	tups     map[ssa.Value][]Term
	lvs      map[ssa.Value]*LV
	closures map[ssa.Value]*Closure
	freeVars map[*ssa.FreeVar]ssa.Value // -> value in creator act
	creator  *Act
	args     []Term
	edges    map[[2]int]*State // pred idx, succ idx -> state on edge
	rets     []retEdge
	panics   []panicEdge
	recovers bool
	loops    map[*ssa.BasicBlock]*loopInfo
	panicking Term // during deferred execution in panic mode: Bool
	panicVal  Term
	recovered *Term
	contract *FuncContract
	phiOverride map[*ssa.Phi]Term
	entryState *State
	curPos   token.Pos
	cur      *State
	mergeRunDefers bool
	mergedExit *State
	havocCallee *ssa.Function
	frameCallee *ssa.Function
	visMode  string
	curBlock *ssa.BasicBlock
	guards   map[ssa.Value]*guardInfo
	recvs    []recvRec
	pendingExits   []pendingExit
}

type pendingExit struct {
	st  *State
	b   *ssa.BasicBlock
	idx int
}

type loopInfo struct {
	header *ssa.BasicBlock
	blocks map[*ssa.BasicBlock]bool
	ord    int
	headSt *State
	preSt  *State
	invs   []*loopInv
	measure []Term
	visName string
	phiEntry map[*ssa.Phi]Term
	visCountHead Term
	visHead func(x Term) Term
	visBack func(x Term) Term
}

type loopInv struct {
	text   string
	cand   *Assumption // for candidates
	user   bool
	eval   func(a *Act, st *State) Term
	header *ssa.BasicBlock
}

func (a *Act) srcLine(pos token.Pos) (string, string) {
	if !pos.IsValid() {
		return "", ""
	}
	p := a.tr.eng.fset.Position(pos)
	line := a.tr.eng.sourceLine(p.Filename, p.Line)
	return fmt.Sprintf("%s:%d", shortFile(p.Filename), p.Line), strings.TrimSpace(line)
}

var repoRoot = "/repo"

func shortFile(f string) string {
	return strings.TrimPrefix(f, repoRoot+"/")
}

func fnName(fn *ssa.Function) string {
	n := fn.String()
	n = strings.ReplaceAll(n, modulePath+"/", "")
	n = strings.ReplaceAll(n, modulePath, "lisp")
	// shorten generic instantiation types
	n = strings.ReplaceAll(n, "github.com/jig/lisp/", "")
	return n
}

// oblige records a proof obligation at instruction pos.
func (a *Act) oblige(st *State, kind string, pos token.Pos, cond Term, goal Term, info map[string]Term) *Obligation {
	if goal == "true" {
		return nil
	}
	if a.parent != nil && a.tr.isRoot != nil && a.tr.isRoot(a.fn) {
		return nil
	}
	if !pos.IsValid() {
		pos = a.curPos
	}
	loc, src := a.srcLine(pos)
	fname := fnName(a.fn)
	base := fmt.Sprintf("%s/%s/«%s»", fname, kind, normSrc(src))
	a.tr.oblCount[base]++
	name := fmt.Sprintf("%s#%d", base, a.tr.oblCount[base])
	o := &Obligation{Name: name, Kind: kind, Fn: fname, Pos: loc, Src: src, Guard: And(st.reach, cond), Goal: goal, Info: info}
	a.tr.obls = append(a.tr.obls, o)
	return o
}

func normSrc(s string) string {
	s = strings.Join(strings.Fields(s), " ")
	if len(s) > 70 {
		s = s[:70]
	}
	return s
}

// mayPanic handles an instruction that panics when !ok.
func (a *Act) mayPanic(st *State, kind string, pos token.Pos, ok Term, pval Term) {
	if ok == "true" {
		return
	}
	bad := Not(ok)
	// nearest recovering activation?
	for r := a; r != nil; r = r.parent {
		if r.recovers {
			ps := st.copy()
			ps.reach = And(st.reach, bad)
			if pval == "" {
				pval = a.tr.runtimeErrVal()
			}
			r.panics = append(r.panics, panicEdge{st: ps, val: pval})
			st.reach = a.tr.define("reach", "Bool", And(st.reach, ok))
			return
		}
	}
	if a.tr.panicMode == "obligation" {
		rc := a.tr.rootAct.contract
		switch {
		case rc != nil && rc.panics == "explicit" && kind == "explicit" && a.parent == nil:
			// intended registration-time validation panics
		case rc != nil && rc.panics == "iff" && a.parent == nil:
			a.oblige(st, "panic-iff/"+kind, pos, "true", Or(ok, a.tr.panicsIffTerm()), nil)
		default:
			a.oblige(st, "nopanic/"+kind, pos, "true", ok, nil)
		}
	}
	st.reach = a.tr.define("reach", "Bool", And(st.reach, ok))
}

// panicsIffTerm: the root contract's `panics iff` condition evaluated at entry.
func (tr *Tr) panicsIffTerm() Term {
	if tr.piTerm != "" {
		return tr.piTerm
	}
	a := tr.rootAct
	rc := a.contract
	var errs []string
	e := &specEnv{a: a, tr: tr, pkg: rc.pkg, st: a.entryState, old: a.entryState, errs: &errs,
		vars: a.bindContract(rc, a.entryState, a.args, nil, tr.root.Signature, true)}
	tr.piTerm = tr.define("panics_iff", "Bool", e.evalBool(rc.panicsIff.expr))
	for _, m := range errs {
		tr.specErr(rc.name + " (panics iff): " + m)
	}
	return tr.piTerm
}

func (tr *Tr) runtimeErrVal() Term {
	code := tr.eng.sorts.otherCode("runtime.Error")
	return fmt.Sprintf("(VOther %d %s)", code, tr.freshConst("rterr", "Int"))
}

// ---------------------------------------------------------------------------
// values

func (a *Act) sortOf(t types.Type) string { return a.tr.eng.sorts.sortOf(t) }

func (a *Act) val(v ssa.Value) Term {
	if al, ok := v.(*ssa.Alloc); ok && a.cur != nil {
		delete(a.cur.owned, a.prefix+al.Name())
	}
	if t, ok := a.vals[v]; ok {
		return t
	}
	switch v := v.(type) {
	case *ssa.Const:
		return a.constTerm(v)
	case *ssa.Function:
		return a.tr.eng.fnConst(v)
	case *ssa.Global:
		return a.tr.eng.globalAddr(v)
	case *ssa.Builtin:
		return "0"
	case *ssa.FreeVar:
		if a.creator != nil {
			if bv, ok := a.freeVars[v]; ok {
				saved := a.creator.cur
				a.creator.cur = nil // resolving a captured variable is not an escaping use
				t := a.creator.ptrVal(bv)
				a.creator.cur = saved
				return t
			}
		}
		// unknown binding: a fresh pointer
		t := a.tr.freshConst("fv_"+v.Name(), a.sortOf(v.Type()))
		a.vals[v] = t
		return t
	}
	if lv, ok := a.lvs[v]; ok {
		return a.firstClass(nil, lv)
	}
	if cl, ok := a.closures[v]; ok {
		return cl.id
	}
	a.tr.unsupp("%s: value %s (%T) used before definition", fnName(a.fn), v.Name(), v)
	t := a.tr.freshConst("undef_"+v.Name(), a.sortOf(v.Type()))
	a.vals[v] = t
	return t
}

// ptrVal: value for pointer-typed v used as a first-class value.
func (a *Act) ptrVal(v ssa.Value) Term { return a.val(v) }

func (a *Act) constTerm(c *ssa.Const) Term {
	t := c.Type()
	if c.Value == nil {
		return a.tr.eng.sorts.zero(t)
	}
	switch u := t.Underlying().(type) {
	case *types.Basic:
		switch {
		case u.Info()&types.IsBoolean != 0:
			if c.Value.String() == "true" {
				return "true"
			}
			return "false"
		case u.Info()&types.IsString != 0:
			return StrLit(constString(c))
		case u.Info()&types.IsInteger != 0:
			return IntLit(c.Int64())
		default:
			// floats etc: opaque code
			return IntLit(int64(a.tr.eng.sorts.otherCode("const:" + c.Value.String())))
		}
	}
	return a.tr.eng.sorts.zero(t)
}

func (a *Act) setVal(v ssa.Value, t Term) {
	sort := a.sortOf(v.Type())
	a.vals[v] = a.tr.define(a.prefix+v.Name(), sort, t)
}

// ---------------------------------------------------------------------------
// lvalues

func (a *Act) lvOf(st *State, v ssa.Value) *LV {
	if lv, ok := a.lvs[v]; ok {
		return lv
	}
	if fv, ok := v.(*ssa.FreeVar); ok && a.creator != nil {
		if bv, ok := a.freeVars[fv]; ok {
			if lv, ok := a.creator.lvs[bv]; ok {
				return lv
			}
			return a.creator.lvOf(st, bv)
		}
	}
	// a first-class pointer value: cell in the shared component
	pt, ok := v.Type().Underlying().(*types.Pointer)
	if !ok {
		a.tr.unsupp("%s: lvOf non-pointer %s", fnName(a.fn), v.Name())
		return &LV{kind: lvCell, typ: v.Type(), addr: "0"}
	}
	if arr, ok := pt.Elem().Underlying().(*types.Array); ok {
		_ = arr
	}
	return &LV{kind: lvCell, typ: pt.Elem(), addr: a.val(v)}
}

func (a *Act) load(st *State, lv *LV) Term {
	tr := a.tr
	switch lv.kind {
	case lvCell:
		return tr.read(tr.heapOf(st, tr.cellComp(lv.typ)), lv.addr)
	case lvLocal:
		return tr.read(tr.heapOf(st, lv.comp))
	case lvField:
		si := tr.eng.sorts.structOf(lv.base.typ)
		if si == nil {
			// opaque struct: field contents unknown
			return tr.freshConst("opaquefield", a.sortOf(lv.typ))
		}
		return app(si.fields[lv.field], a.load(st, lv.base))
	case lvElem:
		return tr.read(tr.heapOf(st, tr.elemComp(lv.typ)), lv.arr, lv.idx)
	}
	return "0"
}

func (a *Act) store(st *State, lv *LV, v Term) {
	tr := a.tr
	switch lv.kind {
	case lvCell:
		c := tr.cellComp(lv.typ)
		st.heap[c.name] = tr.heapStore(tr.heapOf(st, c), []Term{lv.addr}, v)
	case lvLocal:
		st.heap[lv.comp.name] = tr.heapStore(tr.heapOf(st, lv.comp), nil, v)
	case lvField:
		si := tr.eng.sorts.structOf(lv.base.typ)
		if si == nil {
			return
		}
		old := a.load(st, lv.base)
		old = tr.define("sv", si.sort, old)
		args := make([]Term, len(si.fields))
		for i, f := range si.fields {
			if i == lv.field {
				args[i] = v
			} else {
				args[i] = app(f, old)
			}
		}
		a.store(st, lv.base, app(si.ctor, args...))
	case lvElem:
		c := tr.elemComp(lv.typ)
		st.heap[c.name] = tr.heapStore(tr.heapOf(st, c), []Term{lv.arr, lv.idx}, v)
	}
}

// firstClass converts an lvalue to a pointer value (Int address). For interior
// pointers the current content is snapshotted into the shared cell component.
func (a *Act) firstClass(st *State, lv *LV) Term {
	tr := a.tr
	switch lv.kind {
	case lvCell:
		return lv.addr
	case lvLocal:
		// should not happen: escape analysis keeps these private
		tr.unsupp("%s: private local used as first-class pointer", fnName(a.fn))
		return "0"
	case lvField:
		base := a.firstClass(st, lv.base)
		fn := "fa_" + typeKey(lv.base.typ) + "_" + fmt.Sprint(lv.field)
		tr.eng.declareOnce(tr, fn, fmt.Sprintf("(declare-fun %s (Int) Int)", fn))
		addr := app(fn, base)
		tr.assume(Implies(Not(Eq(base, "0")), app(">", addr, "0")), "address of a field of a non-nil object is non-nil")
		if st != nil {
			// the field of an object that exists is not something a callee can allocate
			tr.assume(Implies(And(st.reach, app("<=", base, st.alloc)), app("<=", addr, st.alloc)), "address of a field of an existing object exists")
			c := tr.cellComp(lv.typ)
			st.heap[c.name] = tr.heapStore(tr.heapOf(st, c), []Term{addr}, a.load(st, lv))
		}
		return addr
	case lvElem:
		fn := "ea_" + typeKey(lv.typ)
		tr.eng.declareOnce(tr, fn, fmt.Sprintf("(declare-fun %s (Int Int) Int)", fn))
		addr := app(fn, lv.arr, lv.idx)
		tr.assume(app(">", addr, "0"), "address of a slice element is non-nil")
		if st != nil {
			tr.assume(Implies(And(st.reach, app("<=", lv.arr, st.alloc)), app("<=", addr, st.alloc)), "address of an element of an existing array exists")
			c := tr.cellComp(lv.typ)
			st.heap[c.name] = tr.heapStore(tr.heapOf(st, c), []Term{addr}, a.load(st, lv))
		}
		return addr
	}
	return "0"
}

// ---------------------------------------------------------------------------

func (tr *Tr) wfSlice(s Term) Term {
	return And(app("<=", "0", app("s_off", s)), app("<=", "0", app("s_len", s)), app("<=", app("s_len", s), app("s_cap", s)),
		Implies(Eq(app("s_arr", s), "0"), Eq(app("s_cap", s), "0")), app(">=", app("s_arr", s), "0"))
}

// assumeWF adds well-formedness facts for a freshly obtained value of type t:
// slices are well-formed and every container id directly inside exists (<= alloc now).
func (a *Act) assumeWF(st *State, t types.Type, x Term, depth int) {
	a.assumeWFInv(st, t, x, depth, true)
}

// assumeWFInv: withInv false for values read back from a variable of this activation: what was
// stored there is what is read; assuming the data invariant on it would assume what the
// construction site has to prove.
func (a *Act) assumeWFInv(st *State, t types.Type, x Term, depth int, withInv bool) {
	tr := a.tr
	if tr.openTerm(x) {
		return
	}
	var f Term
	if isInterface(t) {
		f = And(app("idsOK", x, st.alloc), app("valOK", x))
	} else {
		f = tr.eng.sorts.idsOKTerm(t, x, st.alloc, 0)
		if _, isStruct := t.Underlying().(*types.Struct); isStruct && withInv {
			f = And(f, tr.typeInvFor(t, x, st))
		}
	}
	tr.assume(Implies(st.reach, f), "value well-formed and allocated")
}

func constString(c *ssa.Const) string {
	if c.Value != nil && c.Value.Kind() == constant.String {
		return constant.StringVal(c.Value)
	}
	return ""
}

func debugf(format string, args ...any) {
	if os.Getenv("GOVC_DEBUG") != "" {
		fmt.Fprintf(os.Stderr, format+"\n", args...)
	}
}

func sortedBlocks(m map[*ssa.BasicBlock]bool) []*ssa.BasicBlock {
	var out []*ssa.BasicBlock
	for b := range m {
		out = append(out, b)
	}
	sort.Slice(out, func(i, j int) bool { return out[i].Index < out[j].Index })
	return out
}

type condID struct {
	cond Term
	id   Term
}

// idsIn: the container ids directly inside a value of type t (not through the heap).
func (tr *Tr) idsIn(t types.Type, x Term, depth int) []condID {
	switch u := t.Underlying().(type) {
	case *types.Slice:
		if isValueElem(u.Elem()) {
			return []condID{{"true", app("s_arr", x)}}
		}
	case *types.Map:
		if typeStr(u.Key()) == "string" && isValueElem(u.Elem()) {
			return []condID{{"true", x}}
		}
	case *types.Struct:
		si := tr.eng.sorts.structOf(t)
		if si == nil || depth > 1 {
			return nil
		}
		var out []condID
		for i := 0; i < u.NumFields(); i++ {
			ft := u.Field(i).Type()
			if isInterface(ft) {
				continue
			}
			out = append(out, tr.idsIn(ft, app(si.fields[i], x), depth+1)...)
		}
		return out
	case *types.Interface:
		if depth > 0 {
			return nil
		}
		var out []condID
		for _, name := range []string{"List", "Vector", "HashMap", "Set"} {
			nt := tr.eng.namedType("types", name)
			if nt == nil {
				continue
			}
			for _, c := range tr.idsIn(nt, tr.eng.sorts.unVal(nt, x), 1) {
				out = append(out, condID{And(tr.eng.sorts.isCtor(nt, x), c.cond), c.id})
			}
		}
		return out
	}
	return nil
}

// markEscaped: the containers inside x may be retained by someone else from now on.
func (tr *Tr) markEscaped(st *State, t types.Type, x Term) {
	if !tr.frameMode {
		return
	}
	for _, c := range tr.idsIn(t, x, 0) {
		key := c.cond + "|" + c.id + "|" + st.reach
		if st.esc == nil {
			st.esc = map[string]escRec{}
		}
		st.esc[key] = escRec{cond: And(st.reach, c.cond), id: c.id}
	}
}

// writableAt: allocated by this activation (or assignable by contract) and not handed out yet.
func (tr *Tr) writableAt(st *State, id Term) Term {
	t := tr.writable(id)
	for _, k := range sortedKeys(st.esc) {
		e := st.esc[k]
		t = And(t, Not(And(e.cond, Eq(id, e.id))))
	}
	return t
}
