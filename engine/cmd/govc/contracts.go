package main

// Contract files: comment-only Go files (zz_contracts_verif.go, //go:build verif)
// holding //@ lines. Parsing and lookup.

import (
	"fmt"
	"sort"
	"go/ast"
	"go/parser"
	"go/token"
	"go/types"
	"os"
	"path/filepath"
	"regexp"
	"strconv"
	"strings"

	"golang.org/x/tools/go/packages"
	"golang.org/x/tools/go/ssa"
)

type clause struct {
	text string
	expr ast.Expr
	file string
	line int
	tags []string // property ids this clause serves, e.g. [C14]
}

type FuncContract struct {
	pkg      *packages.Package
	key      string // "pkgpath.name" as in ssa.Function.String()
	name     string
	params   []string
	results  []string
	requires []*clause
	ensures  []*clause
	atAssumes []*atAssume
	atAsserts []*atAssume
	panicsIff *clause
	holds     *clause // rank of the lock held on entry
	locksRank *clause // rank of the lock this function takes
	preserves []string
	hints    []*clause // replay preferences: not facts, only used to pick a model
	panics   string // "", "never", "may"
	assigns  []string
	loopInvs map[int][]*clause
	loopDecr map[int][]*clause
	loopAssume map[int][]*clause
	tailrec    map[int]*tailrecSpec
	changesWorld bool
	decreases []*clause
	tco      int
	tcoVars  []string
	pure     bool
	trusted  bool
	inline   bool // keep inlining at call sites even though clauses exist
	file     string
	line     int
	isField  bool
	props    []string
}

func (fc *FuncContract) explicitFrame() bool {
	return fc.pure || len(fc.assigns) > 0 || len(fc.preserves) > 0
}

func (fc *FuncContract) modular() bool {
	if fc.inline {
		return false
	}
	return len(fc.requires)+len(fc.ensures) > 0 || fc.pure || fc.trusted || len(fc.assigns) > 0 || fc.panics != ""
}

type SpecFunc struct {
	pkg    *packages.Package
	name   string
	params []string
	ptypes []types.Type
	psorts []string
	rtype  types.Type
	rsort  string
	body   ast.Expr
	rec    bool
	abstract bool
	replayBody ast.Expr
	text   string
}

type Lemma struct {
	pkg   *packages.Package
	name  string
	vars  []string
	types []types.Type
	hyps  []*clause
	goal  *clause
	props []string
}

type tailrecSpec struct {
	// readsAt: source lines (with occurrence) at which the state is captured; the relation of an
	// obligation dominated by such a point reads the heap as it was there (nearest one)
	readsAt []*atAssume
	rel    *clause // relation over the head state with the free name OUT
	cont   *clause // outcome of continuing the loop (evaluated at the back edge)
	result *clause // outcome at a return
}

type atAssume struct {
	src  string
	occ  int
	cl   *clause
	used bool
}

type TypeInv struct {
	pkg   *packages.Package
	typ   types.Type
	name  string
	param string
	body  ast.Expr
	text  string
}

type frozenGlobal struct {
	pkg  *packages.Package
	name string
	tags []string
}

type Contracts struct {
	frozen []frozenGlobal
	invs   []*TypeInv
	funcs  map[string]*FuncContract
	fields map[string]*FuncContract
	specs  map[string]*SpecFunc
	lemmas []*Lemma
	errors []string
	files  []string
}

// specTier: in the thorough tier a spec function named <name>Thorough replaces <name> (a fuller
// relation whose proof needs the thorough time-outs).
var specTier string

func (c *Contracts) spec(name string) (*SpecFunc, bool) {
	if c == nil {
		return nil, false
	}
	if specTier == "thorough" {
		if sf, ok := c.specs[name+"Thorough"]; ok {
			return sf, true
		}
	}
	sf, ok := c.specs[name]
	return sf, ok
}

func (c *Contracts) forFunc(fn *ssa.Function) *FuncContract {
	if c == nil {
		return nil
	}
	return c.funcs[fn.String()]
}

func (c *Contracts) fieldContract(key string) *FuncContract {
	if c == nil {
		return nil
	}
	return c.fields[key]
}

var headRE = regexp.MustCompile(`^func\s+(\(\*?[\w.]+\)[.\w$]+|[^\s(]+)\s*\(([^)]*)\)\s*(?:\(([^)]*)\))?\s*$`)
var fieldRE = regexp.MustCompile(`^field\s+([^\s(]+)\s*\(([^)]*)\)\s*(?:\(([^)]*)\))?\s*$`)
var specRE = regexp.MustCompile(`^spec\s+(rec\s+)?(\w+)\s*\(([^)]*)\)\s*(\S+)\s*=\s*(.*)$`)
var abstractRE = regexp.MustCompile(`^spec\s+abstract\s+(\w+)\s*\(([^)]*)\)\s*(\S+)\s*(?:~\s*(.*))?$`)
var tagRE = regexp.MustCompile(`\s*@((?:C\d+|assume|local)(?:,(?:C\d+|assume|local))*)\s*$`)

func splitNames(s string) []string {
	var out []string
	for _, p := range strings.Split(s, ",") {
		p = strings.TrimSpace(p)
		if p != "" {
			out = append(out, p)
		}
	}
	return out
}

func loadContracts(pkgs []*packages.Package, fset *token.FileSet) *Contracts {
	cs := &Contracts{funcs: map[string]*FuncContract{}, fields: map[string]*FuncContract{}, specs: map[string]*SpecFunc{}}
	for _, p := range pkgs {
		if !strings.HasPrefix(p.PkgPath, modulePath) {
			continue
		}
		for _, f := range p.GoFiles {
			if strings.HasSuffix(f, "_verif.go") && strings.Contains(filepath.Base(f), "contracts") {
				cs.files = append(cs.files, f)
				cs.parseFile(p, f)
			}
		}
	}
	return cs
}

func (cs *Contracts) errf(file string, line int, format string, args ...any) {
	cs.errors = append(cs.errors, fmt.Sprintf("%s:%d: %s", file, line, fmt.Sprintf(format, args...)))
}

func (cs *Contracts) parseFile(p *packages.Package, file string) {
	data, err := os.ReadFile(file)
	if err != nil {
		cs.errf(file, 0, "%v", err)
		return
	}
	// gather logical clauses: a //@ line starting with a keyword starts a clause;
	// other //@ lines continue the previous clause.
	type raw struct {
		text string
		line int
	}
	var raws []raw
	kw := regexp.MustCompile(`^(invariant|frozen|func|field|spec|lemma|requires|ensures|hint|decreases|at|preserves|holds|locks|changes|panics|assigns|loop|tco|pure|trusted|inline|hyp|goal|props)\b`)
	for i, ln := range strings.Split(string(data), "\n") {
		t := strings.TrimSpace(ln)
		if !strings.HasPrefix(t, "//@") {
			continue
		}
		t = strings.TrimSpace(strings.TrimPrefix(t, "//@"))
		if t == "" || strings.HasPrefix(t, "#") {
			continue
		}
		if kw.MatchString(t) || len(raws) == 0 {
			raws = append(raws, raw{t, i + 1})
		} else {
			raws[len(raws)-1].text += " " + t
		}
	}
	var cur *FuncContract
	var curLemma *Lemma
	for _, r := range raws {
		t := r.text
		var tags []string
		if m := tagRE.FindStringSubmatch(t); m != nil {
			tags = strings.Split(m[1], ",")
			t = strings.TrimSpace(t[:len(t)-len(m[0])])
		}
		mkClause := func(src string) *clause {
			e, err := parser.ParseExpr(preprocess(src))
			if err != nil {
				cs.errf(file, r.line, "cannot parse %q: %v", src, err)
				return nil
			}
			return &clause{text: src, expr: e, file: file, line: r.line, tags: tags}
		}
		word := strings.Fields(t)[0]
		rest := strings.TrimSpace(strings.TrimPrefix(t, word))
		switch word {
		case "func":
			m := headRE.FindStringSubmatch(t)
			if m == nil {
				cs.errf(file, r.line, "bad func header %q", t)
				cur = nil
				continue
			}
			name := m[1]
			var key string
			if strings.HasPrefix(name, "(") {
				// method: (*Env).Get  ->  (*pkgpath.Env).Get
				end := strings.Index(name, ")")
				recv := name[1:end]
				star := ""
				if strings.HasPrefix(recv, "*") {
					star, recv = "*", recv[1:]
				}
				key = "(" + star + p.PkgPath + "." + recv + ")" + name[end+1:]
			} else {
				key = p.PkgPath + "." + name
			}
			cur = &FuncContract{pkg: p, key: key, name: name, params: splitNames(m[2]), results: splitNames(m[3]), loopInvs: map[int][]*clause{}, loopDecr: map[int][]*clause{}, loopAssume: map[int][]*clause{}, file: file, line: r.line}
			cs.funcs[key] = cur
			curLemma = nil
		case "field":
			m := fieldRE.FindStringSubmatch(t)
			if m == nil {
				cs.errf(file, r.line, "bad field header %q", t)
				cur = nil
				continue
			}
			cur = &FuncContract{pkg: p, key: m[1], name: m[1], params: splitNames(m[2]), results: splitNames(m[3]), loopInvs: map[int][]*clause{}, loopDecr: map[int][]*clause{}, loopAssume: map[int][]*clause{}, file: file, line: r.line, isField: true}
			cs.fields[m[1]] = cur
			curLemma = nil
		case "spec":
			if am := abstractRE.FindStringSubmatch(t); am != nil {
				sf := &SpecFunc{pkg: p, name: am[1], rec: true, abstract: true, text: t}
				for _, pd := range splitNames(am[2]) {
					fs := strings.Fields(pd)
					if len(fs) != 2 {
						cs.errf(file, r.line, "bad spec parameter %q", pd)
						continue
					}
					sf.params = append(sf.params, fs[0])
					sf.ptypes = append(sf.ptypes, cs.resolveType(p, fs[1], file, r.line))
				}
				sf.rtype = cs.resolveType(p, am[3], file, r.line)
				if strings.TrimSpace(am[4]) != "" {
					if c := mkClause(am[4]); c != nil {
						sf.replayBody = c.expr // intended meaning, used only to pick realistic models for replay
					}
				}
				cs.specs[sf.name] = sf
				cur, curLemma = nil, nil
				continue
			}
			m := specRE.FindStringSubmatch(t)
			if m == nil {
				cs.errf(file, r.line, "bad spec %q", t)
				continue
			}
			sf := &SpecFunc{pkg: p, name: m[2], rec: m[1] != "", text: t}
			for _, pd := range splitNames(m[3]) {
				fs := strings.Fields(pd)
				if len(fs) != 2 {
					cs.errf(file, r.line, "bad spec parameter %q", pd)
					continue
				}
				sf.params = append(sf.params, fs[0])
				sf.ptypes = append(sf.ptypes, cs.resolveType(p, fs[1], file, r.line))
			}
			sf.rtype = cs.resolveType(p, m[4], file, r.line)
			if c := mkClause(m[5]); c != nil {
				sf.body = c.expr
			}
			cs.specs[sf.name] = sf
			cur, curLemma = nil, nil
		case "frozen":
			// frozen g1 g2: package-private globals no call or loop is taken to change; every
			// function of the package that stores to one is checked to restore it (frozen/restored)
			for _, n := range strings.Fields(rest) {
				cs.frozen = append(cs.frozen, frozenGlobal{pkg: p, name: n, tags: tags})
			}
			cur, curLemma = nil, nil
		case "invariant":
			// invariant TypeName(x) = expr
			im := regexp.MustCompile("^invariant\\s+([\\w.*]+|`[^`]+`)\\s*\\((\\w+)\\)\\s*=\\s*(.*)$").FindStringSubmatch(t)
			if im == nil {
				cs.errf(file, r.line, "bad invariant %q", t)
				continue
			}
			typ := cs.resolveType(p, strings.Trim(im[1], "`"), file, r.line)
			if c := mkClause(im[3]); c != nil {
				cs.invs = append(cs.invs, &TypeInv{pkg: p, typ: typ, name: im[1], param: im[2], body: c.expr, text: im[3]})
			}
			cur, curLemma = nil, nil
		case "lemma":
			// lemma name(x T, y T)
			lm := regexp.MustCompile(`^lemma\s+(\w+)\s*\(([^)]*)\)`).FindStringSubmatch(t)
			if lm == nil {
				cs.errf(file, r.line, "bad lemma %q", t)
				continue
			}
			curLemma = &Lemma{pkg: p, name: lm[1]}
			for _, pd := range splitNames(lm[2]) {
				fs := strings.Fields(pd)
				if len(fs) != 2 {
					cs.errf(file, r.line, "bad lemma variable %q", pd)
					continue
				}
				curLemma.vars = append(curLemma.vars, fs[0])
				curLemma.types = append(curLemma.types, cs.resolveType(p, fs[1], file, r.line))
			}
			cs.lemmas = append(cs.lemmas, curLemma)
			cur = nil
		case "hyp":
			if curLemma != nil {
				if c := mkClause(rest); c != nil {
					curLemma.hyps = append(curLemma.hyps, c)
				}
			}
		case "goal":
			if curLemma != nil {
				curLemma.goal = mkClause(rest)
			}
		case "props":
			if curLemma != nil {
				curLemma.props = splitNames(rest)
			} else if cur != nil {
				cur.props = splitNames(rest)
			}
		default:
			if cur == nil {
				cs.errf(file, r.line, "clause %q outside a func/field block", t)
				continue
			}
			switch word {
			case "requires":
				if c := mkClause(rest); c != nil {
					cur.requires = append(cur.requires, c)
				}
			case "ensures":
				if c := mkClause(rest); c != nil {
					cur.ensures = append(cur.ensures, c)
				}
			case "decreases":
				for _, part := range splitTop(rest) {
					if c := mkClause(part); c != nil {
						cur.decreases = append(cur.decreases, c)
					}
				}
			case "changes":
				if rest == "world" {
					cur.changesWorld = true
				}
			case "holds":
				cur.holds = mkClause(rest)
			case "locks":
				cur.locksRank = mkClause(rest)
			case "preserves":
				cur.preserves = append(cur.preserves, splitNames(rest)...)
			case "at":
				// at "source line text" assume expr
				am := regexp.MustCompile("^\"((?:[^\"\\\\]|\\\\.)*)\"(?:#(\\d+))?\\s+(assume|assert)\\s+(.*)$").FindStringSubmatch(rest)
				if am == nil {
					cs.errf(file, r.line, "bad at-clause %q", t)
					continue
				}
				src, _ := strconv.Unquote("\"" + am[1] + "\"")
				occ, _ := strconv.Atoi(am[2])
				if c := mkClause(am[4]); c != nil {
					if am[3] == "assert" {
						cur.atAsserts = append(cur.atAsserts, &atAssume{src: normSrc(src), occ: occ, cl: c})
					} else {
						cur.atAssumes = append(cur.atAssumes, &atAssume{src: normSrc(src), occ: occ, cl: c})
					}
				}
			case "hint":
				if c := mkClause(rest); c != nil {
					cur.hints = append(cur.hints, c)
				}
			case "panics":
				cur.panics = rest
				if strings.HasPrefix(rest, "iff ") {
					cur.panics = "iff"
					cur.panicsIff = mkClause(strings.TrimSpace(strings.TrimPrefix(rest, "iff ")))
				}
			case "assigns":
				cur.assigns = append(cur.assigns, splitNames(rest)...)
			case "pure":
				cur.pure = true
			case "trusted":
				cur.trusted = true
			case "inline":
				cur.inline = true
			case "tco":
				// tco loop N
				fs := strings.Fields(rest)
				if len(fs) >= 2 && fs[0] == "loop" {
					cur.tco, _ = strconv.Atoi(fs[1])
				}
			case "loop":
				fs := strings.Fields(rest)
				if len(fs) >= 3 && fs[1] == "invariant" {
					n, _ := strconv.Atoi(fs[0])
					src := strings.TrimSpace(strings.SplitN(rest, "invariant", 2)[1])
					if c := mkClause(src); c != nil {
						cur.loopInvs[n] = append(cur.loopInvs[n], c)
					}
				} else if len(fs) >= 3 && (fs[1] == "tailrec" || fs[1] == "continue" || fs[1] == "result") {
					n, _ := strconv.Atoi(fs[0])
					src := strings.TrimSpace(strings.SplitN(rest, fs[1], 2)[1])
					if cur.tailrec == nil {
						cur.tailrec = map[int]*tailrecSpec{}
					}
					if cur.tailrec[n] == nil {
						cur.tailrec[n] = &tailrecSpec{}
					}
					if c := mkClause(src); c != nil {
						switch fs[1] {
						case "tailrec":
							cur.tailrec[n].rel = c
						case "continue":
							cur.tailrec[n].cont = c
						case "result":
							cur.tailrec[n].result = c
						}
					}
				} else if len(fs) >= 3 && fs[1] == "readsat" {
					// loop N readsat "source line"#occ
					n, _ := strconv.Atoi(fs[0])
					am := regexp.MustCompile("^\"((?:[^\"\\\\]|\\\\.)*)\"(?:#(\\d+))?\\s*$").FindStringSubmatch(strings.TrimSpace(strings.SplitN(rest, "readsat", 2)[1]))
					if am == nil {
						cs.errf(file, r.line, "bad readsat clause %q", t)
						continue
					}
					src, _ := strconv.Unquote("\"" + am[1] + "\"")
					occ, _ := strconv.Atoi(am[2])
					if cur.tailrec == nil {
						cur.tailrec = map[int]*tailrecSpec{}
					}
					if cur.tailrec[n] == nil {
						cur.tailrec[n] = &tailrecSpec{}
					}
					cur.tailrec[n].readsAt = append(cur.tailrec[n].readsAt, &atAssume{src: normSrc(src), occ: occ})
				} else if len(fs) >= 3 && fs[1] == "assume" {
					n, _ := strconv.Atoi(fs[0])
					src := strings.TrimSpace(strings.SplitN(rest, "assume", 2)[1])
					if c := mkClause(src); c != nil {
						cur.loopAssume[n] = append(cur.loopAssume[n], c)
					}
				} else if len(fs) >= 3 && fs[1] == "decreases" {
					n, _ := strconv.Atoi(fs[0])
					src := strings.TrimSpace(strings.SplitN(rest, "decreases", 2)[1])
					for _, part := range splitTop(src) {
						if c := mkClause(part); c != nil {
							cur.loopDecr[n] = append(cur.loopDecr[n], c)
						}
					}
				} else {
					cs.errf(file, r.line, "bad loop clause %q", t)
				}
			}
		}
	}
}

// preprocess rewrites the few non-Go tokens of the contract language.
func preprocess(s string) string {
	// a ==> b   ->  implies(a, b)  is not expressible by token rewriting in general;
	// contracts use implies(a, b) directly. `$name` -> `_S_name`
	s = strings.ReplaceAll(s, "$", "_S_")
	return s
}

func (cs *Contracts) resolveType(p *packages.Package, src string, file string, line int) types.Type {
	switch src {
	case "bool":
		return types.Typ[types.Bool]
	case "int":
		return types.Typ[types.Int]
	case "string":
		return types.Typ[types.String]
	case "World":
		return tWorld
	case "Outcome":
		return tOutcome
	}
	try := func(pkg *types.Package) types.Type {
		tv, err := types.Eval(token.NewFileSet(), pkg, token.NoPos, src)
		if err == nil && tv.Type != nil {
			return tv.Type
		}
		return nil
	}
	if t := try(p.Types); t != nil {
		return t
	}
	for _, ip := range dotImportsFirst(p) {
		if strings.HasPrefix(ip.PkgPath, modulePath) {
			if t := try(ip.Types); t != nil {
				return t
			}
		}
	}
	if e, err := parser.ParseExpr(src); err == nil {
		// slices and string-keyed maps of a named type
		if at, ok := e.(*ast.ArrayType); ok && at.Len == nil {
			if et := lookupTypeName(p, at.Elt); et != nil {
				return types.NewSlice(et)
			}
		}
		if mt, ok := e.(*ast.MapType); ok {
			kt, vt := lookupTypeName(p, mt.Key), lookupTypeName(p, mt.Value)
			if vt == nil {
				if it, ok := mt.Value.(*ast.InterfaceType); ok && (it.Methods == nil || len(it.Methods.List) == 0) {
					vt = types.NewInterfaceType(nil, nil)
				}
			}
			if kt != nil && vt != nil {
				return types.NewMap(kt, vt)
			}
		}
		star := false
		if se, ok := e.(*ast.StarExpr); ok {
			star = true
			e = se.X
		}
		if t := lookupTypeName(p, e); t != nil {
			if star {
				return types.NewPointer(t)
			}
			return t
		}
	}
	cs.errf(file, line, "cannot resolve type %q", src)
	return types.Typ[types.Int]
}

// lookupTypeName resolves an identifier naming a type from the point of view of pkg.
func lookupTypeName(p *packages.Package, e ast.Expr) types.Type {
	src := types.ExprString(e)
	try := func(pkg *types.Package) types.Type {
		tv, err := types.Eval(token.NewFileSet(), pkg, token.NoPos, src)
		if err == nil && tv.Type != nil && tv.IsType() {
			return tv.Type
		}
		return nil
	}
	switch src {
	case "bool":
		return types.Typ[types.Bool]
	case "int":
		return types.Typ[types.Int]
	case "string":
		return types.Typ[types.String]
	case "float32":
		return types.Typ[types.Float32]
	case "error":
		return types.Universe.Lookup("error").Type()
	}
	if t := try(p.Types); t != nil {
		return t
	}
	for _, ip := range dotImportsFirst(p) {
		if strings.HasPrefix(ip.PkgPath, modulePath) {
			if t := try(ip.Types); t != nil {
				return t
			}
		}
	}
	// pkg.Name form with an import
	if se, ok := e.(*ast.SelectorExpr); ok {
		if id, ok := se.X.(*ast.Ident); ok {
			for _, ip := range p.Imports {
				if ip.Name == id.Name {
					if o := ip.Types.Scope().Lookup(se.Sel.Name); o != nil {
						if tn, ok := o.(*types.TypeName); ok {
							return tn.Type()
						}
					}
				}
			}
		}
	}
	return nil
}

// splitTop splits on commas that are not nested in parentheses/brackets.
func splitTop(s string) []string {
	var out []string
	depth, start := 0, 0
	for i, r := range s {
		switch r {
		case '(', '[':
			depth++
		case ')', ']':
			depth--
		case ',':
			if depth == 0 {
				out = append(out, strings.TrimSpace(s[start:i]))
				start = i + 1
			}
		}
	}
	out = append(out, strings.TrimSpace(s[start:]))
	return out
}

// dotImportsFirst: the packages imported by p, dot-imported ones first, then package
// types, then the rest in path order (unqualified names in contracts resolve like Go
// would for dot imports; the fallback lets other packages name types of package types).
func dotImportsFirst(p *packages.Package) []*packages.Package {
	dots := map[string]bool{}
	for _, f := range p.Syntax {
		for _, im := range f.Imports {
			if im.Name != nil && im.Name.Name == "." {
				path, _ := strconv.Unquote(im.Path.Value)
				dots[path] = true
			}
		}
	}
	var first, second, rest []*packages.Package
	var paths []string
	for path := range p.Imports {
		paths = append(paths, path)
	}
	sort.Strings(paths)
	for _, path := range paths {
		ip := p.Imports[path]
		switch {
		case dots[path]:
			first = append(first, ip)
		case path == modulePath+"/types":
			second = append(second, ip)
		default:
			rest = append(rest, ip)
		}
	}
	return append(append(first, second...), rest...)
}
