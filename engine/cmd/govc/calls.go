package main

// Calls: builtins, contracts, inlining, stubs, havoc; defers; goroutines; channels.

import (
	"fmt"
	"go/token"
	"go/types"
	"strings"

	"golang.org/x/tools/go/ssa"
)

const maxInlineDepth = 3
const maxInlineBlocks = 24

func (a *Act) call(st *State, c *ssa.CallCommon, site ssa.Instruction, pos token.Pos) []Term {
	tr := a.tr
	if tr.frameMode && a.callRetains(c) {
		for _, x := range c.Args {
			if _, isConst := x.(*ssa.Const); isConst {
				continue
			}
			if _, isFn := x.(*ssa.Function); isFn {
				continue
			}
			if _, isPtr := x.Type().Underlying().(*types.Pointer); isPtr {
				continue
			}
			tr.markEscaped(st, x.Type(), a.valAs(st, x))
		}
	}
	// builtins
	if b, ok := c.Value.(*ssa.Builtin); ok {
		return a.builtin(st, b, c, pos)
	}
	// argument terms
	var args []Term
	if c.IsInvoke() {
		recv := a.valAs(st, c.Value)
		args = append(args, recv)
	}
	for _, x := range c.Args {
		args = append(args, a.valAs(st, x))
	}
	if tr.eng.hooks.onCallArgs != nil && !c.IsInvoke() {
		tr.eng.hooks.onCallArgs(a, st, c, args, pos)
	}
	// resolve callee
	var callee *ssa.Function
	var closure *Closure
	if c.IsInvoke() {
		callee = tr.eng.resolveInvoke(c)
		if callee == nil {
			return a.invokeStub(st, c, args, pos)
		}
		// receiver: interface value -> concrete receiver
		rt := callee.Signature.Recv().Type()
		args[0] = tr.eng.sorts.unVal(rt, args[0])
		a.mayPanic(st, "nilderef", pos, tr.eng.sorts.isCtor(rt, a.valAs(st, c.Value)), "")
	} else if f := c.StaticCallee(); f != nil {
		callee = f
		if mc, ok := c.Value.(*ssa.MakeClosure); ok {
			closure = a.closures[mc]
		}
	} else if cl := a.findClosure(c.Value); cl != nil {
		closure = cl
		callee = cl.fn
	} else {
		return a.dynamicCall(st, c, args, pos)
	}
	return a.callFunc(st, callee, closure, args, pos, c)
}

func (a *Act) findClosure(v ssa.Value) *Closure {
	for x := a; x != nil; x = x.creator {
		if cl, ok := x.closures[v]; ok {
			return cl
		}
	}
	return nil
}

func (a *Act) onStack(fn *ssa.Function) bool {
	for x := a; x != nil; x = x.parent {
		if x.fn == fn {
			return true
		}
	}
	return false
}

func (a *Act) callFunc(st *State, callee *ssa.Function, closure *Closure, args []Term, pos token.Pos, c *ssa.CallCommon) []Term {
	tr := a.tr
	name := callee.String()
	a.checkNoLockHeldAtCall(st, name, pos)
	if name == modulePath+"/types.Apply" {
		gc := tr.comp("ghost:applied", nil, "Int", false)
		cur := tr.read(tr.heapOf(st, gc))
		st.heap[gc.name] = tr.heapStore(tr.heapOf(st, gc), nil, tr.define("applied", "Int", app("+", cur, "1")))
		defer func() {
			// the callee's frame must not forget the count
			st.heap[gc.name] = tr.heapStore(tr.heapOf(st, gc), nil, app("+", cur, "1"))
		}()
	}
	// 1. stubs for functions outside the module
	if stub := tr.eng.stubFor(name); stub != nil {
		tr.usedStubs[name] = true
		return stub(a, st, callee, args, pos)
	}
	// 2. contract
	if fc := tr.eng.contracts.forFunc(callee); fc != nil && fc.modular() && !tr.noContracts {
		return a.applyContract(st, callee, fc, args, pos)
	}
	// 3. inline module functions
	if callee.Pkg != nil && strings.HasPrefix(callee.Pkg.Pkg.Path(), modulePath) || (callee.Pkg == nil && callee.Parent() != nil) || isInstantiation(callee) {
		forced := closure != nil
		if fc := tr.eng.contracts.forFunc(callee); fc != nil && fc.inline {
			forced = true
		}
		if len(callee.Blocks) > 0 && !a.onStack(callee) && (forced || (a.depth < maxInlineDepth && len(callee.Blocks) <= 3) || (a.depth < maxInlineDepth && len(callee.Blocks) <= maxInlineBlocks && tr.inlineBudget >= len(callee.Blocks))) {
			tr.inlineBudget -= len(callee.Blocks)
			return a.inline(st, callee, closure, args, pos)
		}
		tr.havocked[name] = true
		a.havocCallee = callee
		defer func() { a.havocCallee = nil }()
		return a.havocCall(st, callee.Signature, args, true, pos, name)
	}
	// 4. unknown external function: results unconstrained, lisp heap untouched
	tr.havocked[name] = true
	return a.havocCall(st, callee.Signature, args, false, pos, name)
}

func isInstantiation(f *ssa.Function) bool {
	return f.Origin() != nil && f.Origin().Pkg != nil && strings.HasPrefix(f.Origin().Pkg.Pkg.Path(), modulePath)
}

func (a *Act) inline(st *State, callee *ssa.Function, closure *Closure, args []Term, pos token.Pos) []Term {
	tr := a.tr
	tr.inlined[fnName(callee)] = true
	child := tr.newAct(callee, a)
	if closure != nil {
		child.creator = closure.act
		child.freeVars = map[*ssa.FreeVar]ssa.Value{}
		for i, fv := range callee.FreeVars {
			if i < len(closure.bindings) {
				child.freeVars[fv] = closure.bindings[i]
			}
		}
	}
	out, res := child.run(st, args)
	if out == nil {
		// callee never returns normally on this path
		st.reach = "false"
		nres := callee.Signature.Results().Len()
		res = make([]Term, nres)
		for i := range res {
			res[i] = tr.eng.sorts.zero(callee.Signature.Results().At(i).Type())
		}
		return res
	}
	st.reach = out.reach
	st.heap = out.heap
	st.alloc = out.alloc
	st.owned = out.owned
	for d, v := range out.defers {
		st.defers[d] = v
	}
	return res
}

// havocCall: results are fresh; for module callees the value heap keeps everything that
// exists now (callee obeys the C02 frame, checked separately) and cells are havocked.
func (a *Act) havocCall(st *State, sig *types.Signature, args []Term, module bool, pos token.Pos, name string) []Term {
	tr := a.tr
	res := make([]Term, sig.Results().Len())
	for i := range res {
		rt := sig.Results().At(i).Type()
		res[i] = tr.freshConst("hv_"+lastName(name), a.sortOf(rt))
	}
	defer func() {
		for i := range res {
			a.assumeWF(st, sig.Results().At(i).Type(), res[i], 1)
		}
	}()
	if module {
		now := st.alloc
		pre := st.copy()
		all, mods := true, map[string]bool(nil)
		if a.havocCallee != nil {
			mods, all = a.calleeMods(a.havocCallee)
			// allocation by the callee touches the value components
			for cn, c := range tr.comps {
				if c.value {
					mods[cn] = true
				}
			}
		}
		st.prov = &prov{kind: "havoc", prev: pre, all: all, mods: mods, hint: "call",
			keepValue: func(key []Term) Term { return app("<=", key[0], now) }}
		for name := range st.heap {
			c := tr.comps[name]
			if c == nil || c.local {
				continue
			}
			if !all && !mods[name] && !c.value {
				continue
			}
			if strings.HasPrefix(name, "ghost:lock") {
				continue
			}
			delete(st.heap, name)
		}
		na := tr.freshConst("alloc_call", "Int")
		tr.assume(Implies(st.reach, app(">=", na, now)), "allocation counter monotone")
		st.alloc = na
	}
	return res
}

func lastName(s string) string {
	if i := strings.LastIndexAny(s, "./"); i >= 0 {
		return s[i+1:]
	}
	return s
}

// dynamicCall: call through a function value that is not a known closure.
func (a *Act) dynamicCall(st *State, c *ssa.CallCommon, args []Term, pos token.Pos) []Term {
	tr := a.tr
	fv := a.val(c.Value)
	a.mayPanic(st, "nilfunc", pos, Not(Eq(fv, "0")), "")
	// field contract?
	if key := fieldOfValue(c.Value); key != "" {
		if fc := tr.eng.contracts.fieldContract(key); fc != nil && !tr.noContracts {
			a.checkNoLockHeldAtCall(st, "field:"+key, pos)
			return a.applyFieldContract(st, fc, fv, args, pos, c)
		}
	}
	sig := c.Value.Type().Underlying().(*types.Signature)
	if ex, ok := c.Value.(*ssa.Extract); ok && ex.Index == 1 {
		if call, ok := ex.Tuple.(*ssa.Call); ok {
			if f := call.Call.StaticCallee(); f != nil && f.Pkg != nil && f.Pkg.Pkg.Path() == "context" && strings.HasPrefix(f.Name(), "With") {
				// the cancel function of a derived context: releases that context only, which
				// the model does not track (assumption A-TIME covers deadlines and cancellation)
				tr.usedStubs["context.CancelFunc"] = true
				return nil
			}
		}
	}
	tr.havocked["dynamic:"+typeStr(sig)] = true
	if tr.prop == "C20" {
		// a Go function reached through a function value the binder knows nothing about may panic
		a.mayPanic(st, "dyncall", pos, tr.freshConst("nopanic_dyn", "Bool"), tr.freshConst("panicval", "Val"))
	}
	return a.havocCall(st, sig, args, true, pos, "dyn")
}

// fieldOfValue: "pkg.Type.Field" if v is the value of a struct field.
func fieldOfValue(v ssa.Value) string {
	if ct, ok := v.(*ssa.ChangeType); ok {
		return fieldOfValue(ct.X)
	}
	switch v := v.(type) {
	case *ssa.Field:
		st := v.X.Type().Underlying().(*types.Struct)
		return typeStr(v.X.Type()) + "." + st.Field(v.Field).Name()
	case *ssa.UnOp:
		if g, ok := v.X.(*ssa.Global); ok {
			return qualifier(g.Pkg.Pkg) + "." + g.Name()
		}
		if fa, ok := v.X.(*ssa.FieldAddr); ok {
			pt := fa.X.Type().Underlying().(*types.Pointer).Elem()
			st := pt.Underlying().(*types.Struct)
			return typeStr(pt) + "." + st.Field(fa.Field).Name()
		}
	}
	return ""
}

// ---------------------------------------------------------------------------
// builtins

func (a *Act) builtin(st *State, b *ssa.Builtin, c *ssa.CallCommon, pos token.Pos) []Term {
	tr := a.tr
	switch b.Name() {
	case "len":
		x := c.Args[0]
		switch xt := x.Type().Underlying().(type) {
		case *types.Slice:
			return []Term{app("s_len", a.val(x))}
		case *types.Basic:
			return []Term{app("str.len", a.val(x))}
		case *types.Map:
			return []Term{a.mapLen(st, xt, a.val(x))}
		case *types.Pointer:
			if arr, ok := xt.Elem().Underlying().(*types.Array); ok {
				return []Term{IntLit(arr.Len())}
			}
		case *types.Chan:
			return []Term{tr.freshConst("chanlen", "Int")}
		}
	case "cap":
		x := c.Args[0]
		if _, ok := x.Type().Underlying().(*types.Slice); ok {
			return []Term{app("s_cap", a.val(x))}
		}
	case "append":
		return []Term{a.appendOp(st, c, pos)}
	case "copy":
		return []Term{a.copyOp(st, c, pos)}
	case "delete":
		mt := c.Args[0].Type().Underlying().(*types.Map)
		k := a.valAs(st, c.Args[1])
		a.checkMapAccess(st, c.Args[0], true, pos)
		a.mapDelete(st, mt, a.val(c.Args[0]), k, pos)
		return nil
	case "recover":
		// find the activation that is panicking: the one running its defers
		for x := a; x != nil; x = x.parent {
			if x.panicking != "" {
				v := Ite(x.panicking, x.panicVal, "VNil")
				v = tr.define("recovered", "Val", v)
				// recover only works when called directly by the deferred function
				x.panicking = "false"
				return []Term{v}
			}
		}
		return []Term{"VNil"}
	case "print", "println":
		return nil
	case "min", "max":
		x, y := a.val(c.Args[0]), a.val(c.Args[1])
		if b.Name() == "min" {
			return []Term{Ite(app("<=", x, y), x, y)}
		}
		return []Term{Ite(app(">=", x, y), x, y)}
	}
	tr.unsupp("%s: builtin %s", fnName(a.fn), b.Name())
	if c.Signature().Results().Len() > 0 {
		return []Term{tr.freshConst("builtin", a.sortOf(c.Signature().Results().At(0).Type()))}
	}
	return nil
}

// constLenOf: if slice value v is `slice t[:]` of a `new [k]T`, return k.
func constLenOf(v ssa.Value) (int64, bool) {
	if sl, ok := v.(*ssa.Slice); ok && sl.Low == nil && sl.High == nil {
		if al, ok := sl.X.(*ssa.Alloc); ok {
			if arr, ok := al.Type().Underlying().(*types.Pointer).Elem().Underlying().(*types.Array); ok {
				return arr.Len(), true
			}
		}
	}
	return 0, false
}

// appendOp models append(s, t...) exactly: in place iff len(s)+len(t) <= cap(s).
func (a *Act) appendOp(st *State, c *ssa.CallCommon, pos token.Pos) Term {
	tr := a.tr
	sT := c.Args[0].Type().Underlying().(*types.Slice)
	elem := sT.Elem()
	comp := tr.elemComp(elem)
	s := a.val(c.Args[0])
	var n, tArr, tOff Term
	if isString(c.Args[1].Type()) {
		// append([]byte, string...)
		n = app("str.len", a.val(c.Args[1]))
		tArr, tOff = "", ""
	} else {
		t := a.val(c.Args[1])
		n, tArr, tOff = app("s_len", t), app("s_arr", t), app("s_off", t)
	}
	n = tr.define("app_n", "Int", n)
	sLen, sCap, sArr, sOff := app("s_len", s), app("s_cap", s), app("s_arr", s), app("s_off", s)
	newLen := tr.define("app_len", "Int", app("+", sLen, n))
	inPlace := tr.define("app_inplace", "Bool", app("<=", newLen, sCap))
	// frame: an in-place append of n>0 elements writes cells of s's array
	if tr.frameMode && comp.value {
		a.oblige(st, "frame/store", pos, And(inPlace, app(">", n, "0")), tr.writableAt(st, sArr),
			map[string]Term{"target": sArr, "len": sLen, "cap": sCap, "n": n})
	}
	// fresh array for the reallocating case
	newArr := tr.define("app_arr", "Int", app("+", st.alloc, "1"))
	newCap := tr.freshConst("app_cap", "Int")
	tr.assume(Implies(st.reach, app(">=", newCap, newLen)), "append capacity")
	prev := tr.heapOf(st, comp)
	src := prev
	// in-place branch
	var hIn, hNew *HeapV
	if tArr == "" {
		hIn = tr.heapFrame(prev, func(key []Term) Term { return Not(Eq(key[0], sArr)) }, "appstr")
		hNew = tr.heapFrame(prev, func(key []Term) Term { return Not(Eq(key[0], newArr)) }, "appstr")
	} else {
		hIn = tr.heapCopy(prev, sArr, app("+", sOff, sLen), n, src, tArr, tOff)
		h1 := tr.heapCopy(prev, newArr, "0", sLen, src, sArr, sOff)
		hNew = tr.heapCopy(h1, newArr, sLen, n, src, tArr, tOff)
	}
	st.heap[comp.name] = tr.heapIte(inPlace, hIn, hNew)
	st.alloc = tr.define("alloc", "Int", Ite(inPlace, st.alloc, newArr))
	res := Ite(inPlace, app("mkSlice", sArr, sOff, newLen, sCap), app("mkSlice", newArr, "0", newLen, newCap))
	// appending nothing to a nil slice yields nil; modelled by the in-place branch (cap 0, len 0)
	return tr.define("app_res", "Slice", res)
}

func (a *Act) copyOp(st *State, c *ssa.CallCommon, pos token.Pos) Term {
	tr := a.tr
	dT := c.Args[0].Type().Underlying().(*types.Slice)
	comp := tr.elemComp(dT.Elem())
	d := a.val(c.Args[0])
	var n Term
	prev := tr.heapOf(st, comp)
	if isString(c.Args[1].Type()) {
		sl := app("str.len", a.val(c.Args[1]))
		n = tr.define("copy_n", "Int", Ite(app("<=", app("s_len", d), sl), app("s_len", d), sl))
		st.heap[comp.name] = tr.heapFrame(prev, func(key []Term) Term { return Not(Eq(key[0], app("s_arr", d))) }, "copystr")
	} else {
		s := a.val(c.Args[1])
		n = tr.define("copy_n", "Int", Ite(app("<=", app("s_len", d), app("s_len", s)), app("s_len", d), app("s_len", s)))
		st.heap[comp.name] = tr.heapCopy(prev, app("s_arr", d), app("s_off", d), n, prev, app("s_arr", s), app("s_off", s))
	}
	if tr.frameMode && comp.value {
		a.oblige(st, "frame/store", pos, app(">", n, "0"), tr.writableAt(st, app("s_arr", d)), map[string]Term{"target": app("s_arr", d)})
	}
	return n
}

// ---------------------------------------------------------------------------
// defers, goroutines

func (a *Act) noteDefer(st *State, d *ssa.Defer) {
	// evaluate argument values now (Go semantics): remember them on the activation
	args := make([]Term, 0, len(d.Call.Args)+1)
	if d.Call.IsInvoke() {
		args = append(args, a.valAs(st, d.Call.Value))
	}
	for _, x := range d.Call.Args {
		args = append(args, a.valAs(st, x))
	}
	if a.tr.eng.deferArgs == nil {
		a.tr.eng.deferArgs = map[*ssa.Defer]map[*Act][]Term{}
	}
	if a.tr.eng.deferArgs[d] == nil {
		a.tr.eng.deferArgs[d] = map[*Act][]Term{}
	}
	a.tr.eng.deferArgs[d][a] = args
}

// runDefers executes pending deferred calls in reverse order of registration
// (reverse block order approximates LIFO for the acyclic part).
func (a *Act) runDefers(st *State, b *ssa.BasicBlock) {
	tr := a.tr
	var sites []*ssa.Defer
	for _, blk := range a.fn.Blocks {
		for _, in := range blk.Instrs {
			if d, ok := in.(*ssa.Defer); ok {
				if _, ok := st.defers[d]; ok {
					sites = append(sites, d)
				}
			}
		}
	}
	// LIFO: later registration first. Use reverse post-order position.
	order := map[*ssa.BasicBlock]int{}
	for i, blk := range rpo(a.fn) {
		order[blk] = i
	}
	for i := 0; i < len(sites); i++ {
		for j := i + 1; j < len(sites); j++ {
			oi, oj := order[sites[i].Block()], order[sites[j].Block()]
			if oj > oi || (oj == oi && instrIndex(sites[j]) > instrIndex(sites[i])) {
				sites[i], sites[j] = sites[j], sites[i]
			}
		}
	}
	for _, d := range sites {
		flag := st.defers[d]
		if flag == "false" {
			continue
		}
		// run the deferred call under flag; merge with the state where it is not run
		skip := st.copy()
		skip.reach = tr.define("reach", "Bool", And(st.reach, Not(flag)))
		run := st.copy()
		run.reach = tr.define("reach", "Bool", And(st.reach, flag))
		run.defers = map[*ssa.Defer]Term{}
		args := tr.eng.deferArgs[d][a]
		savedPanicking := a.panicking
		a.callDeferred(run, d, args)
		afterPanicking := a.panicking
		if savedPanicking != "" && afterPanicking != savedPanicking {
			// recovered only on the path where the deferred call ran
			a.panicking = tr.define("panicking", "Bool", Ite(flag, afterPanicking, savedPanicking))
		}
		delete(st.defers, d)
		delete(skip.defers, d)
		run.defers = skip.defers
		m := tr.mergeStates([]*State{run, skip})
		st.reach, st.heap, st.alloc, st.defers, st.owned = m.reach, m.heap, m.alloc, m.defers, m.owned
	}
}

func instrIndex(in ssa.Instruction) int {
	for i, x := range in.Block().Instrs {
		if x == in {
			return i
		}
	}
	return -1
}

func (a *Act) callDeferred(st *State, d *ssa.Defer, args []Term) {
	c := &d.Call
	if b, ok := c.Value.(*ssa.Builtin); ok {
		_ = b
		return
	}
	var callee *ssa.Function
	var closure *Closure
	if c.IsInvoke() {
		callee = a.tr.eng.resolveInvoke(c)
		if callee == nil {
			a.invokeStub(st, c, args, d.Pos())
			return
		}
	} else if f := c.StaticCallee(); f != nil {
		callee = f
		if mc, ok := c.Value.(*ssa.MakeClosure); ok {
			closure = a.closures[mc]
		}
	} else if cl := a.findClosure(c.Value); cl != nil {
		closure, callee = cl, cl.fn
	} else {
		a.dynamicCall(st, c, args, d.Pos())
		return
	}
	a.callFunc(st, callee, closure, args, d.Pos(), c)
}

func (a *Act) goStmt(st *State, g *ssa.Go) {
	// the spawned function runs as a separate thread entry; the spawner continues.
	a.tr.eng.noteGo(a, st, g)
}

// ---------------------------------------------------------------------------
// channels / select (no interleavings: nondeterministic choice)

func (a *Act) recv(st *State, in *ssa.UnOp) {
	tr := a.tr
	ct := in.X.Type().Underlying().(*types.Chan)
	v := tr.freshConst("recv", a.sortOf(ct.Elem()))
	if in.CommaOk {
		a.tups[in] = []Term{v, tr.freshConst("recv_ok", "Bool")}
	} else {
		a.vals[in] = v
	}
	tr.eng.noteChan(a, st, "recv", in.X, v, in.Pos())
}

func (a *Act) send(st *State, in *ssa.Send) {
	a.noteSend(st, in.Chan, a.val(in.Chan), a.valAs(st, in.X), "true", in.Pos())
	a.tr.eng.noteChan(a, st, "send", in.Chan, a.valAs(st, in.X), in.Pos())
}

func (a *Act) selectStmt(st *State, in *ssa.Select) {
	tr := a.tr
	idx := tr.freshConst("select_idx", "Int")
	lo := "0"
	if !in.Blocking {
		lo = "(- 1)"
	}
	tr.assume(Implies(st.reach, And(app("<=", lo, idx), app("<", idx, IntLit(int64(len(in.States)))))), "select chooses one of its cases")
	tup := []Term{idx, tr.freshConst("select_ok", "Bool")}
	for i, s := range in.States {
		if s.Dir == types.RecvOnly {
			ct := s.Chan.Type().Underlying().(*types.Chan)
			v := tr.freshConst("select_recv", a.sortOf(ct.Elem()))
			tup = append(tup, v)
			if ch := a.val(s.Chan); strings.HasPrefix(ch, "(ctx_donechan ") {
				cx := strings.TrimSuffix(strings.TrimPrefix(ch, "(ctx_donechan "), ")")
				// the Done channel is readable exactly when the context is done
				tr.assume(Implies(And(st.reach, Eq(idx, IntLit(int64(i)))), tr.ctxDone(cx)), "a receive from ctx.Done() succeeds only when the context is done")
				if !in.Blocking && len(in.States) == 1 {
					tr.assume(Implies(And(st.reach, tr.ctxDone(cx)), Eq(idx, IntLit(int64(i)))), "a non-blocking select takes the ready ctx.Done() case")
				}
				if tr.noTimeouts {
					tr.assume(Implies(st.reach, Not(tr.ctxDone(cx))), "A-TIME: no context ends during the evaluation")
				}
			}
			a.noteRecv(st, a.val(s.Chan), v, Eq(idx, IntLit(int64(i))), a.sortOf(ct.Elem()))
			tr.eng.noteSelectRecv(a, st, in, i, s, idx, v)
		} else {
			a.noteSend(st, s.Chan, a.val(s.Chan), a.valAs(st, s.Send), Eq(idx, IntLit(int64(i))), s.Pos)
			tr.eng.noteChanCond(a, st, "send", s.Chan, a.valAs(st, s.Send), s.Pos, Eq(idx, IntLit(int64(i))))
		}
	}
	tr.eng.noteSelect(a, st, in, idx)
	a.tups[in] = tup
}

func (a *Act) invokeStub(st *State, c *ssa.CallCommon, args []Term, pos token.Pos) []Term {
	tr := a.tr
	key := fmt.Sprintf("(%s).%s", typeStr(c.Value.Type()), c.Method.Name())
	if stub := tr.eng.stubFor(key); stub != nil {
		tr.usedStubs[key] = true
		return stub(a, st, nil, args, pos)
	}
	sig := c.Method.Type().(*types.Signature)
	tr.havocked["invoke:"+key] = true
	// calling a method on a nil interface panics
	a.mayPanic(st, "nilderef", pos, Not(Eq(args[0], "VNil")), "")
	// ... and so does a value-receiver method reached through a nil pointer held in the interface
	for _, pt := range tr.eng.valueRecvPtrTypes(c.Method.Name()) {
		a.mayPanic(st, "nilderef", pos, Implies(tr.eng.sorts.isCtor(pt, args[0]), Not(Eq(tr.eng.sorts.unVal(pt, args[0]), "0"))), "")
	}
	return a.havocCall(st, sig, args[1:], false, pos, key)
}
