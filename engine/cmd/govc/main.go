package main

import (
	"flag"
	"golang.org/x/tools/go/ssa"
	"fmt"
	"os"
	"runtime"
	"strings"
)

func usage() {
	fmt.Fprintln(os.Stderr, "usage: govc <check|vc|list|selftest|replay> [flags]")
	os.Exit(2)
}

func main() {
	if len(os.Args) < 2 {
		usage()
	}
	switch os.Args[1] {
	case "vc":
		cmdVC(os.Args[2:])
	case "list":
		cmdList(os.Args[2:])
	case "check":
		os.Exit(cmdCheck(os.Args[2:]))
	case "selftest":
		os.Exit(cmdSelftest(os.Args[2:]))
	default:
		usage()
	}
}

func scratchDir() string {
	base := os.Getenv("VERIF_SCRATCH")
	if base == "" {
		base = os.TempDir()
	}
	d, err := os.MkdirTemp(base, "govc-")
	if err != nil {
		panic(err)
	}
	return d
}

// vc: translate one function and check its obligations (development aid).
func cmdVC(args []string) {
	fs := flag.NewFlagSet("vc", flag.ExitOnError)
	repo := fs.String("repo", "/repo", "repository")
	fn := fs.String("fn", "", "function key (pkgpath.Name)")
	panicMode := fs.String("panic", "ignore", "obligation|ignore")
	frame := fs.Bool("frame", false, "emit frame/store obligations")
	lock := fs.Bool("lock", false, "lock-discipline obligations")
	prop := fs.String("prop", "", "property id (selects tagged clauses)")
	notime := fs.Bool("notimeouts", false, "assume no context ends (A-TIME)")
	dump := fs.String("dump", "", "write the prelude to this file")
	timeout := fs.Int("timeout", 10000, "ms per query")
	verbose := fs.Bool("v", false, "verbose")
	fs.Parse(args)
	eng, err := loadEngine(*repo)
	if err != nil {
		fmt.Fprintln(os.Stderr, err)
		os.Exit(2)
	}
	for _, e := range eng.contracts.errors {
		fmt.Println("CONTRACT ERROR:", e)
	}
	key := *fn
	f := eng.lookupFunc(key)
	if f == nil {
		fmt.Fprintln(os.Stderr, "no such function", key)
		os.Exit(2)
	}
	tr := eng.translate(&Job{Fn: f, PanicMode: *panicMode, Frame: *frame, LockMode: *lock, Prop: *prop, NoTimeouts: *notime, TypeInv: os.Getenv("GOVC_TYPEINV") != ""})
	for _, u := range tr.unsupported {
		fmt.Println("UNSUPPORTED:", u)
	}
	for _, u := range tr.specErrs {
		fmt.Println("SPEC ERROR:", u)
	}
	if *dump != "" {
		os.WriteFile(*dump, []byte(tr.prelude(true)), 0o644)
	}
	scratch := scratchDir()
	if os.Getenv("GOVC_KEEP") == "" {
		defer os.RemoveAll(scratch)
	}
	cfg := &SolverCfg{TimeoutMs: *timeout, Scratch: scratch}
	tr.discharge(cfg, runtime.NumCPU(), nil)
	for _, o := range tr.obls {
		if o.Cand != nil {
			if *verbose {
				fmt.Printf("  cand %-8s alive=%v %s\n", o.Result, o.Cand.Alive, o.Name)
			}
			continue
		}
		if o.Dead {
			fmt.Printf("DEAD-PATH %s  [%s]\n", o.Name, o.Pos)
		}
		fmt.Printf("%-8s %-7s %5dms %s  [%s]\n", o.Result, o.Solver, o.TimeMs, o.Name, o.Pos)
		if (o.Result != "unsat" || os.Getenv("GOVC_SHOWALL") != "") && *verbose {
			fmt.Println("   guard:", clip(o.Guard, 300))
			fmt.Println("   goal: ", clip(o.Goal, 300))
			fmt.Println("   ", firstLines(o.Model, 6))
		}
	}
	fmt.Printf("cover (assumptions satisfiable): %s\n", map[string]string{"sat": "ok", "unknown": "unknown", "unsat": "CONTRADICTORY", "": "-"}[tr.coverResult])
	fmt.Printf("inlined: %v\nhavocked: %v\nstubs: %v\n", sortedKeys(tr.inlined), sortedKeys(tr.havocked), sortedKeys(tr.usedStubs))
}

// lookupFunc accepts "lib/core.conj", "lisp.EVAL", "(*env.Env).Get" or full ssa names.
func (e *Engine) lookupFunc(key string) *ssa.Function {
	cands := []string{key, modulePath + "/" + key}
	if strings.HasPrefix(key, "lisp.") {
		cands = append(cands, modulePath+"."+strings.TrimPrefix(key, "lisp."))
	}
	if strings.HasPrefix(key, "(*") {
		cands = append(cands, "(*"+modulePath+"/"+key[2:])
	} else if strings.HasPrefix(key, "(") {
		cands = append(cands, "("+modulePath+"/"+key[1:])
	}
	for _, c := range cands {
		if f := e.findFunc(c); f != nil {
			return f
		}
	}
	return nil
}

func cmdList(args []string) {
	eng, err := loadEngine("/repo")
	if err != nil {
		fmt.Fprintln(os.Stderr, err)
		os.Exit(2)
	}
	for _, f := range eng.moduleFuncs("", "/types", "/env", "/lib/core", "/lib/call", "/lib/concurrent", "/reader", "/printer", "/lisperror", "/lnotation", "/repl") {
		fmt.Println(f.String(), len(f.Blocks))
	}
}


func clip(s string, n int) string {
	if len(s) > n {
		return s[:n] + "..."
	}
	return s
}
