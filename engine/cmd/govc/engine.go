package main

// Engine: loading /repo, shared registries, per-function verification driver.

import (
	"go/ast"
	"go/constant"
	"bufio"
	"fmt"
	"go/token"
	"go/types"
	"os"
	"sort"
	"strings"

	"golang.org/x/tools/go/packages"
	"golang.org/x/tools/go/ssa"
	"golang.org/x/tools/go/ssa/ssautil"
)

type Engine struct {
	repo      string
	fset      *token.FileSet
	pkgs      []*packages.Package
	prog      *ssa.Program
	spkgs     map[string]*ssa.Package
	sorts     *Sorts
	contracts *Contracts
	fnIDs     map[*ssa.Function]int
	fnOrd     []*ssa.Function
	globIDs   map[*ssa.Global]int
	lines     map[string][]string
	deferArgs map[*ssa.Defer]map[*Act][]Term
	recCache  map[*ssa.Function]bool
	ifaceImpl map[string]*ssa.Function
	modsCache map[*ssa.Function]modsEntry
	vrCache   map[string][]types.Type
	hooks     Hooks
	// frozen package globals: component name -> addresses, and the globals themselves
	frozenAddrs map[string][]Term
	frozenGlobs map[*ssa.Global]bool
	constErrGlobs map[*ssa.Global]string
	frozenTags  []string // properties under which the directive applies (empty: all)
}

// Hooks let property-specific analyses observe the translation.
type Hooks struct {
	onGo        func(a *Act, st *State, g *ssa.Go)
	onChan      func(a *Act, st *State, dir string, ch ssa.Value, v Term, pos token.Pos, cond Term)
	onSelect    func(a *Act, st *State, in *ssa.Select, idx Term)
	onCallArgs  func(a *Act, st *State, c *ssa.CallCommon, args []Term, pos token.Pos)
	onFieldCall func(a *Act, st *State, fc *FuncContract, fv Term, args, results []Term, pos token.Pos)
	onTCO       func(a *Act, st *State, li *loopInfo)
	onRange     func(a *Act, st *State, in *ssa.Next, m, k, ok Term)
	onLock      func(a *Act, st *State, kind string, addr Term, pos token.Pos)
}

func goEnv() []string {
	env := os.Environ()
	env = append(env, "GOFLAGS=-mod=mod", "GOPROXY=off", "GOSUMDB=off", "GOTOOLCHAIN=local", "CGO_ENABLED=0")
	return env
}

func loadEngine(repo string) (*Engine, error) {
	repoRoot = repo
	fset := token.NewFileSet()
	cfg := &packages.Config{Mode: packages.LoadAllSyntax, Dir: repo, BuildFlags: []string{"-tags=verif"}, Fset: fset, Env: goEnv()}
	pkgs, err := packages.Load(cfg, "./...")
	if err != nil {
		return nil, err
	}
	var errs []string
	packages.Visit(pkgs, nil, func(p *packages.Package) {
		for _, e := range p.Errors {
			if strings.HasPrefix(p.PkgPath, modulePath) {
				errs = append(errs, e.Error())
			}
		}
	})
	if len(errs) > 0 {
		return nil, fmt.Errorf("package errors:\n%s", strings.Join(errs, "\n"))
	}
	prog, spkgs := ssautil.AllPackages(pkgs, ssa.InstantiateGenerics|ssa.GlobalDebug)
	prog.Build()
	e := &Engine{repo: repo, fset: fset, pkgs: pkgs, prog: prog, spkgs: map[string]*ssa.Package{}, sorts: newSorts(),
		fnIDs: map[*ssa.Function]int{}, globIDs: map[*ssa.Global]int{}, lines: map[string][]string{}, recCache: map[*ssa.Function]bool{},
		ifaceImpl: map[string]*ssa.Function{}, modsCache: map[*ssa.Function]modsEntry{}}
	for i, p := range spkgs {
		if p != nil {
			e.spkgs[pkgs[i].PkgPath] = p
		}
	}
	// package-level variables of function type (hooks such as lisp.Stepper) are installed by the
	// embedder before evaluation starts: treated as unchanged by calls (assumption A-HOOK)
	for _, p := range prog.AllPackages() {
		if !strings.HasPrefix(p.Pkg.Path(), modulePath) {
			continue
		}
		for _, m := range p.Members {
			if g, ok := m.(*ssa.Global); ok {
				if pt, ok := g.Type().Underlying().(*types.Pointer); ok {
					if _, isSig := pt.Elem().Underlying().(*types.Signature); isSig {
						immutableCells["cell:"+typeKey(pt.Elem())] = true
					}
				}
			}
		}
	}
	all := []*packages.Package{}
	packages.Visit(pkgs, nil, func(p *packages.Package) { all = append(all, p) })
	sort.Slice(all, func(i, j int) bool { return all[i].PkgPath < all[j].PkgPath })
	e.contracts = loadContracts(all, fset)
	e.frozenAddrs = map[string][]Term{}
	e.frozenGlobs = map[*ssa.Global]bool{}
	for _, fg := range e.contracts.frozen {
		sp := e.spkgs[fg.pkg.PkgPath]
		if sp == nil {
			continue
		}
		g, ok := sp.Members[fg.name].(*ssa.Global)
		if !ok {
			e.contracts.errors = append(e.contracts.errors, "frozen: no package variable "+fg.name+" in "+fg.pkg.PkgPath)
			continue
		}
		cn := "cell:" + typeKey(g.Type().Underlying().(*types.Pointer).Elem())
		e.frozenAddrs[cn] = append(e.frozenAddrs[cn], e.globalAddr(g))
		e.frozenGlobs[g] = true
		e.frozenTags = append(e.frozenTags, fg.tags...)
		if ast.IsExported(fg.name) {
			e.contracts.errors = append(e.contracts.errors, "frozen: "+fg.name+" is exported (other packages could assign it)")
		}
		// its address must never escape: only direct loads and stores
		var walk func(f *ssa.Function)
		walk = func(f *ssa.Function) {
			for _, b := range f.Blocks {
				for _, in := range b.Instrs {
					for _, op := range in.Operands(nil) {
						if *op != ssa.Value(g) {
							continue
						}
						switch x := in.(type) {
						case *ssa.Store:
							if x.Val != ssa.Value(g) {
								continue
							}
						case *ssa.UnOp:
							if x.Op == token.MUL {
								continue
							}
						case *ssa.DebugRef:
							continue
						}
						e.contracts.errors = append(e.contracts.errors, "frozen: address of "+fg.name+" escapes in "+f.String())
					}
				}
			}
			for _, af := range f.AnonFuncs {
				walk(af)
			}
		}
		for _, m := range sp.Members {
			if f, ok := m.(*ssa.Function); ok {
				walk(f)
			}
		}
	}
	e.findConstErrGlobals(prog)
	return e, nil
}

// findConstErrGlobals: package-level variables `var ErrX = errors.New("literal")` that no function
// of the module assigns or takes the address of are constants: a load gives an error with that text
// (assumption A-ERRVAR: code outside the module does not assign them either).
func (e *Engine) findConstErrGlobals(prog *ssa.Program) {
	e.constErrGlobs = map[*ssa.Global]string{}
	cand := map[*ssa.Global]string{}
	bad := map[*ssa.Global]bool{}
	var walk func(f *ssa.Function, isInit bool)
	walk = func(f *ssa.Function, isInit bool) {
		for _, b := range f.Blocks {
			for _, in := range b.Instrs {
				for _, op := range in.Operands(nil) {
					g, ok := (*op).(*ssa.Global)
					if !ok {
						continue
					}
					switch x := in.(type) {
					case *ssa.UnOp:
						if x.Op == token.MUL {
							continue
						}
					case *ssa.DebugRef:
						continue
					case *ssa.Store:
						if x.Addr == ssa.Value(g) && x.Val != ssa.Value(g) && isInit {
							if c, ok := x.Val.(*ssa.Call); ok {
								if callee := c.Call.StaticCallee(); callee != nil && callee.String() == "errors.New" && len(c.Call.Args) == 1 {
									if k, ok := c.Call.Args[0].(*ssa.Const); ok && k.Value != nil && k.Value.Kind() == constant.String {
										if _, dup := cand[g]; !dup {
											cand[g] = constant.StringVal(k.Value)
											continue
										}
									}
								}
							}
						}
					}
					bad[g] = true
				}
			}
		}
		for _, af := range f.AnonFuncs {
			walk(af, false)
		}
	}
	for _, p := range prog.AllPackages() {
		if !strings.HasPrefix(p.Pkg.Path(), modulePath) {
			continue
		}
		for name, m := range p.Members {
			if f, ok := m.(*ssa.Function); ok {
				walk(f, name == "init")
			}
		}
		for _, t := range p.Members {
			if tn, ok := t.(*ssa.Type); ok {
				for _, recv := range []types.Type{tn.Type(), types.NewPointer(tn.Type())} {
					ms := prog.MethodSets.MethodSet(recv)
					for i := 0; i < ms.Len(); i++ {
						if f := prog.MethodValue(ms.At(i)); f != nil && f.Pkg == p {
							walk(f, false)
						}
					}
				}
			}
		}
	}
	for g, msg := range cand {
		if !bad[g] {
			e.constErrGlobs[g] = msg
		}
	}
}

func (e *Engine) pkgOf(fn *ssa.Function) *packages.Package {
	for fn.Parent() != nil {
		fn = fn.Parent()
	}
	var path string
	if fn.Pkg != nil {
		path = fn.Pkg.Pkg.Path()
	} else if fn.Origin() != nil && fn.Origin().Pkg != nil {
		path = fn.Origin().Pkg.Pkg.Path()
	}
	for _, p := range e.pkgs {
		if p.PkgPath == path {
			return p
		}
	}
	var found *packages.Package
	packages.Visit(e.pkgs, nil, func(p *packages.Package) {
		if p.PkgPath == path {
			found = p
		}
	})
	return found
}

// findFunc: "pkgpath.Name", "(*pkgpath.T).Method", closures "pkgpath.Name$1".
func (e *Engine) findFunc(key string) *ssa.Function {
	var found *ssa.Function
	for fn := range ssautil.AllFunctions(e.prog) {
		if fn.String() == key {
			if found == nil || len(fn.Blocks) > len(found.Blocks) {
				found = fn
			}
		}
	}
	return found
}

func (e *Engine) moduleFuncs(pkgSuffixes ...string) []*ssa.Function {
	var out []*ssa.Function
	for fn := range ssautil.AllFunctions(e.prog) {
		if len(fn.Blocks) == 0 || fn.Synthetic != "" && !strings.Contains(fn.Synthetic, "instance") {
			continue
		}
		root := fn
		for root.Parent() != nil {
			root = root.Parent()
		}
		var path string
		if root.Pkg != nil {
			path = root.Pkg.Pkg.Path()
		} else if root.Origin() != nil && root.Origin().Pkg != nil {
			path = root.Origin().Pkg.Pkg.Path()
		}
		for _, s := range pkgSuffixes {
			if path == modulePath+s {
				out = append(out, fn)
			}
		}
	}
	sort.Slice(out, func(i, j int) bool { return out[i].String() < out[j].String() })
	return out
}

func (e *Engine) sourceLine(file string, line int) string {
	ls, ok := e.lines[file]
	if !ok {
		f, err := os.Open(file)
		if err == nil {
			sc := bufio.NewScanner(f)
			sc.Buffer(make([]byte, 1<<20), 1<<20)
			for sc.Scan() {
				ls = append(ls, sc.Text())
			}
			f.Close()
		}
		e.lines[file] = ls
	}
	if line-1 < len(ls) && line >= 1 {
		return ls[line-1]
	}
	return ""
}

func (e *Engine) fnConst(fn *ssa.Function) Term {
	id, ok := e.fnIDs[fn]
	if !ok {
		id = len(e.fnIDs) + 1
		e.fnIDs[fn] = id
		e.fnOrd = append(e.fnOrd, fn)
	}
	return IntLit(int64(-1000 - id))
}

func (e *Engine) globalAddr(g *ssa.Global) Term {
	id, ok := e.globIDs[g]
	if !ok {
		id = len(e.globIDs) + 1
		e.globIDs[g] = id
	}
	return IntLit(int64(-100000 - id))
}

func (e *Engine) declareOnce(tr *Tr, name, decl string) {
	if tr.declared[name] {
		return
	}
	tr.declared[name] = true
	tr.predecls = append(tr.predecls, decl)
}

// deferRecovers: does fn defer a function that calls recover()?
func (e *Engine) deferRecovers(fn *ssa.Function) bool {
	if v, ok := e.recCache[fn]; ok {
		return v
	}
	res := false
	for _, b := range fn.Blocks {
		for _, in := range b.Instrs {
			d, ok := in.(*ssa.Defer)
			if !ok {
				continue
			}
			var callee *ssa.Function
			if f := d.Call.StaticCallee(); f != nil {
				callee = f
			}
			if callee != nil && callsRecover(callee) {
				res = true
			}
		}
	}
	e.recCache[fn] = res
	return res
}

func callsRecover(fn *ssa.Function) bool {
	for _, b := range fn.Blocks {
		for _, in := range b.Instrs {
			if c, ok := in.(*ssa.Call); ok {
				if bi, ok := c.Call.Value.(*ssa.Builtin); ok && bi.Name() == "recover" {
					return true
				}
			}
		}
	}
	return false
}

// resolveInvoke: interface method call on a module interface with a single implementation.
func (e *Engine) resolveInvoke(c *ssa.CallCommon) *ssa.Function {
	it := c.Value.Type()
	key := typeStr(it) + "." + c.Method.Name()
	if f, ok := e.ifaceImpl[key]; ok {
		return f
	}
	var res *ssa.Function
	// only for interfaces declared closed by assumption (A-ENV: every EnvType is a *env.Env)
	if n, ok := it.(*types.Named); ok && n.Obj().Pkg() != nil && strings.HasPrefix(n.Obj().Pkg().Path(), modulePath) && closedInterfaces[typeStr(it)] {
		iface := it.Underlying().(*types.Interface)
		var impls []types.Type
		for _, p := range e.prog.AllPackages() {
			if !strings.HasPrefix(p.Pkg.Path(), modulePath) {
				continue
			}
			for _, m := range p.Members {
				tn, ok := m.(*ssa.Type)
				if !ok {
					continue
				}
				t := tn.Type()
				if isInterface(t) {
					continue
				}
				if types.Implements(t, iface) {
					impls = append(impls, t)
				} else if types.Implements(types.NewPointer(t), iface) {
					impls = append(impls, types.NewPointer(t))
				}
			}
		}
		if len(impls) == 1 {
			ms := e.prog.MethodSets.MethodSet(impls[0])
			if sel := ms.Lookup(c.Method.Pkg(), c.Method.Name()); sel != nil {
				res = e.prog.MethodValue(sel)
			}
		}
	}
	e.ifaceImpl[key] = res
	return res
}

func (e *Engine) uncomparable(v Term) Term   { return app("uncmpV", v) }
func (e *Engine) sameDynType(x, y Term) Term { return Eq(app("dynTypeId", x), app("dynTypeId", y)) }

func (e *Engine) noteClosure(tr *Tr, cl *Closure) { tr.closuresSeen = append(tr.closuresSeen, cl) }
func (e *Engine) noteRange(a *Act, st *State, in *ssa.Next, m, k, ok Term) {
	if e.hooks.onRange != nil {
		e.hooks.onRange(a, st, in, m, k, ok)
	}
}
func (e *Engine) noteGo(a *Act, st *State, g *ssa.Go) {
	if e.hooks.onGo != nil {
		e.hooks.onGo(a, st, g)
	}
}
func (e *Engine) noteChan(a *Act, st *State, dir string, ch ssa.Value, v Term, pos token.Pos) {
	e.noteChanCond(a, st, dir, ch, v, pos, "true")
}
func (e *Engine) noteChanCond(a *Act, st *State, dir string, ch ssa.Value, v Term, pos token.Pos, cond Term) {
	if e.hooks.onChan != nil {
		e.hooks.onChan(a, st, dir, ch, v, pos, cond)
	}
}
func (e *Engine) noteSelectRecv(a *Act, st *State, in *ssa.Select, i int, s *ssa.SelectState, idx, v Term) {
	if e.hooks.onChan != nil {
		e.hooks.onChan(a, st, "recv", s.Chan, v, s.Pos, Eq(idx, IntLit(int64(i))))
	}
}
func (e *Engine) noteSelect(a *Act, st *State, in *ssa.Select, idx Term) {
	if e.hooks.onSelect != nil {
		e.hooks.onSelect(a, st, in, idx)
	}
}
func (e *Engine) noteFieldCall(a *Act, st *State, fc *FuncContract, fv Term, args, results []Term, pos token.Pos) {
	if e.hooks.onFieldCall != nil {
		e.hooks.onFieldCall(a, st, fc, fv, args, results, pos)
	}
}
func (e *Engine) tcoBackEdge(a *Act, st *State, li *loopInfo) {
	if e.hooks.onTCO != nil {
		e.hooks.onTCO(a, st, li)
	}
}

// ---------------------------------------------------------------------------

type Job struct {
	Fn           *ssa.Function
	PanicMode    string // obligation | ignore
	Frame        bool
	ClauseFilter func(c *clause) bool
	KindFilter   func(kind string) bool
	Setup        func(tr *Tr, a *Act, st *State, args []Term)
	CheckPost    bool
	IsRoot       func(fn *ssa.Function) bool
	TypeInv      bool
	NoUserInv    bool
	NoContracts  bool
	NoTimeouts   bool
	GlobalStoreGuard func(a *Act, st *State, g *ssa.Global) Term
	Prop         string
	LockMode     bool
}

// translate builds the VC for one root function.
func (e *Engine) translate(job *Job) *Tr {
	fn := job.Fn
	tr := &Tr{eng: e, root: fn, comps: map[string]*Component{}, oblCount: map[string]int{}, panicMode: job.PanicMode, frameMode: job.Frame,
		initHeap: map[string]*HeapV{}, usedStubs: map[string]bool{}, inlined: map[string]bool{}, havocked: map[string]bool{},
		declared: map[string]bool{}, unfolded: map[string]bool{}, usedContracts: map[string]bool{}, usedAssumed: map[string]bool{}, atDone: map[string]bool{}, specDefs: map[string]string{}, clauseFilter: job.ClauseFilter, isRoot: job.IsRoot, typeInvMode: job.TypeInv, lockMode: job.LockMode, prop: job.Prop, noUserInv: job.NoUserInv, noContracts: job.NoContracts, noTimeouts: job.NoTimeouts, globalStoreGuard: job.GlobalStoreGuard}
	tr.inlineBudget = 200 - 2*len(fn.Blocks)
	if tr.inlineBudget < 0 {
		tr.inlineBudget = 0
	}
	tr.alloc0 = tr.freshConst("alloc0", "Int")
	tr.assume(app(">=", tr.alloc0, "0"), "allocation counter non-negative")
	a := tr.newAct(fn, nil)
	tr.rootAct = a
	tr.contract = a.contract
	st := &State{reach: "true", heap: map[string]*HeapV{}, alloc: tr.alloc0, defers: map[*ssa.Defer]Term{}, owned: map[string]ownedCell{}, esc: map[string]escRec{}}
	// parameters: arbitrary values that exist at entry
	args := make([]Term, len(fn.Params))
	var paramInv []func()
	for i, p := range fn.Params {
		args[i] = tr.freshConst("p_"+p.Name(), a.sortOf(p.Type()))
		a.assumeWF(st, p.Type(), args[i], 2)
		tr.assumePreExisting(st, p.Type(), args[i])
		paramInv = append(paramInv, func() { tr.assume(tr.typeInvFor(p.Type(), args[i], st), "data invariant of parameter "+p.Name()) })
	}
	for _, fv := range fn.FreeVars {
		t := tr.freshConst("fv_"+fv.Name(), a.sortOf(fv.Type()))
		a.vals[fv] = t
		tr.assume(And(app(">", t, "0"), app("<=", t, tr.alloc0)), "captured variable cell exists at entry")
	}
	a.args = args
	for i, p := range fn.Params {
		a.vals[p] = args[i]
	}
	a.entryState = st.copy()
	for _, f := range paramInv {
		f()
	}
	a.assumeRequires(st)
	if job.Setup != nil {
		job.Setup(tr, a, st, args)
	}
	a.run(st, args)
	return tr
}

// assumePreExisting: containers directly held by a parameter exist at entry.
func (tr *Tr) assumePreExisting(st *State, t types.Type, x Term) {
	switch u := t.Underlying().(type) {
	case *types.Slice:
		tr.assume(app("<=", app("s_arr", x), tr.alloc0), "parameter slice exists at entry")
	case *types.Map, *types.Pointer, *types.Chan, *types.Signature:
		tr.assume(app("<=", x, tr.alloc0), "parameter object exists at entry")
	case *types.Struct:
		si := tr.eng.sorts.structOf(t)
		if si == nil {
			return
		}
		for i := 0; i < u.NumFields(); i++ {
			tr.assumePreExisting(st, u.Field(i).Type(), app(si.fields[i], x))
		}
	case *types.Interface:
		tr.assume(app("idsOK", x, tr.alloc0), "containers inside a parameter exist at entry")
	}
}

var closedInterfaces = map[string]bool{"types.EnvType": true}

func (e *Engine) namedType(pkgName, name string) types.Type {
	for _, p := range e.prog.AllPackages() {
		if p.Pkg.Name() == pkgName && strings.HasPrefix(p.Pkg.Path(), modulePath) {
			if o := p.Pkg.Scope().Lookup(name); o != nil {
				return o.Type()
			}
		}
	}
	return nil
}

// bareTr: a translation context without a root function (spec lemmas).
func (e *Engine) bareTr() *Tr {
	tr := &Tr{eng: e, comps: map[string]*Component{}, oblCount: map[string]int{}, panicMode: "ignore",
		initHeap: map[string]*HeapV{}, usedStubs: map[string]bool{}, inlined: map[string]bool{}, havocked: map[string]bool{},
		declared: map[string]bool{}, unfolded: map[string]bool{}, usedContracts: map[string]bool{}, usedAssumed: map[string]bool{}, atDone: map[string]bool{}, specDefs: map[string]string{}}
	tr.alloc0 = tr.freshConst("alloc0", "Int")
	tr.assume(app(">=", tr.alloc0, "0"), "allocation counter non-negative")
	a := &Act{tr: tr, vals: map[ssa.Value]Term{}, tups: map[ssa.Value][]Term{}, lvs: map[ssa.Value]*LV{},
		closures: map[ssa.Value]*Closure{}, edges: map[[2]int]*State{}, loops: map[*ssa.BasicBlock]*loopInfo{}, phiOverride: map[*ssa.Phi]Term{}}
	a.entryState = &State{reach: "true", heap: map[string]*HeapV{}, alloc: tr.alloc0, defers: map[*ssa.Defer]Term{}, owned: map[string]ownedCell{}}
	tr.rootAct = a
	return tr
}

// valueRecvPtrTypes: pointer types *T of module types T that declare method name with a value
// receiver (calling it through a nil *T stored in an interface dereferences nil).
func (e *Engine) valueRecvPtrTypes(name string) []types.Type {
	if e.vrCache == nil {
		e.vrCache = map[string][]types.Type{}
	}
	if r, ok := e.vrCache[name]; ok {
		return r
	}
	var out []types.Type
	var pkgs []*ssa.Package
	for _, p := range e.prog.AllPackages() {
		if strings.HasPrefix(p.Pkg.Path(), modulePath) {
			pkgs = append(pkgs, p)
		}
	}
	sort.Slice(pkgs, func(i, j int) bool { return pkgs[i].Pkg.Path() < pkgs[j].Pkg.Path() })
	for _, p := range pkgs {
		var names []string
		for n := range p.Members {
			names = append(names, n)
		}
		sort.Strings(names)
		for _, n := range names {
			tn, ok := p.Members[n].(*ssa.Type)
			if !ok || isInterface(tn.Type()) {
				continue
			}
			ms := types.NewMethodSet(tn.Type())
			for i := 0; i < ms.Len(); i++ {
				if ms.At(i).Obj().Name() == name {
					out = append(out, types.NewPointer(tn.Type()))
				}
			}
		}
	}
	e.vrCache[name] = out
	return out
}

// storesFrozen lists the frozen globals fn (or a closure of it) stores to.
// frozenActive: the frozen directive applies to the property being checked.
func (e *Engine) frozenActive(prop string) bool {
	if len(e.frozenGlobs) == 0 {
		return false
	}
	if len(e.frozenTags) == 0 {
		return true
	}
	for _, t := range e.frozenTags {
		if t == prop {
			return true
		}
	}
	return false
}

func (e *Engine) storesFrozen(fn *ssa.Function) []*ssa.Global {
	if len(e.frozenGlobs) == 0 {
		return nil
	}
	seen := map[*ssa.Global]bool{}
	var out []*ssa.Global
	var walk func(f *ssa.Function)
	walk = func(f *ssa.Function) {
		for _, b := range f.Blocks {
			for _, in := range b.Instrs {
				if s, ok := in.(*ssa.Store); ok {
					if g, ok := s.Addr.(*ssa.Global); ok && e.frozenGlobs[g] && !seen[g] {
						seen[g] = true
						out = append(out, g)
					}
				}
			}
		}
		for _, af := range f.AnonFuncs {
			walk(af)
		}
	}
	walk(fn)
	sort.Slice(out, func(i, j int) bool { return out[i].Name() < out[j].Name() })
	return out
}
