package main

import "testing"

func TestC16Lemma(t *testing.T) {
	n, fails := c16Lemma(5)
	t.Logf("%d cases, %d mismatches", n, len(fails))
	for _, f := range fails {
		t.Log(f)
	}
	if len(fails) > 0 {
		t.Fail()
	}
}
