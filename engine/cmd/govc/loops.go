package main

// Loop invariants: user-written (contracts) and automatically proposed candidates
// (Houdini: a candidate is kept only if it is inductive).

import (
	"fmt"
	"go/constant"
	"go/token"
	"go/types"
	"strings"

	"golang.org/x/tools/go/ssa"
)

func (a *Act) setupLoopInvariants(li *loopInfo, phiEntry map[*ssa.Phi]Term) {
	tr := a.tr
	if li.invs != nil {
		return
	}
	li.invs = []*loopInv{}
	addCand := func(text string, eval func(a *Act, st *State) Term) {
		as := &Assumption{ID: len(tr.assumes), Candidate: true, Alive: true, Term: "true", Why: "candidate invariant: " + text}
		tr.assumes = append(tr.assumes, as)
		li.invs = append(li.invs, &loopInv{text: text, cand: as, eval: eval, header: li.header})
	}
	for _, instr := range li.header.Instrs {
		phi, ok := instr.(*ssa.Phi)
		if !ok {
			break
		}
		pv := func(a *Act) Term {
			if t, ok := a.phiOverride[phi]; ok {
				return t
			}
			return a.val(phi)
		}
		label := phi.Comment
		if label == "" {
			label = phi.Name()
		}
		switch phi.Type().Underlying().(type) {
		case *types.Basic:
			if a.sortOf(phi.Type()) != "Int" {
				continue
			}
			// find init (entry edges) and step (back edges)
			var inits []ssa.Value
			var steps []int64
			okShape := true
			for i, p := range li.header.Preds {
				e := phi.Edges[i]
				if isBackEdge(p, li.header) {
					c, ok := stepOf(e, phi)
					if !ok {
						okShape = false
					}
					steps = append(steps, c)
				} else {
					inits = append(inits, e)
				}
			}
			if !okShape || len(inits) != 1 || len(steps) == 0 {
				continue
			}
			step := steps[0]
			same := true
			for _, s := range steps {
				if s != step {
					same = false
				}
			}
			if !same || step == 0 {
				continue
			}
			init := inits[0]
			if !a.dominatesHeader(init, li.header) {
				continue
			}
			if step > 0 {
				addCand(fmt.Sprintf("%s >= init", label), func(a *Act, st *State) Term { return app(">=", pv(a), a.val(init)) })
			} else {
				addCand(fmt.Sprintf("%s <= init", label), func(a *Act, st *State) Term { return app("<=", pv(a), a.val(init)) })
			}
			// bounds suggested by comparisons inside the loop: phi <= len(x), phi <= y
			if step > 0 {
				seenB := map[string]bool{}
				for _, blk := range sortedBlocks(li.blocks) {
					for _, in := range blk.Instrs {
						bo, ok := in.(*ssa.BinOp)
						if !ok {
							continue
						}
						var other ssa.Value
						var off int64
						if bo.X == ssa.Value(phi) {
							other = bo.Y
						} else if bo.Y == ssa.Value(phi) {
							other = bo.X
						} else if c, ok := stepOf(bo.X, phi); ok {
							other, off = bo.Y, c
						} else if c, ok := stepOf(bo.Y, phi); ok {
							other, off = bo.X, c
						} else {
							continue
						}
						offT := IntLit(off)
						switch bo.Op {
						case token.LSS, token.LEQ, token.GTR, token.GEQ, token.EQL, token.NEQ:
						default:
							continue
						}
						if call, ok := other.(*ssa.Call); ok {
							if bi, ok := call.Call.Value.(*ssa.Builtin); ok && bi.Name() == "len" && a.dominatesHeader(call.Call.Args[0], li.header) {
								arg := call.Call.Args[0]
								if _, isSl := arg.Type().Underlying().(*types.Slice); isSl && !seenB[fmt.Sprintf("len:%s:%d", arg.Name(), off)] {
									seenB[fmt.Sprintf("len:%s:%d", arg.Name(), off)] = true
									addCand(fmt.Sprintf("%s+%d <= len(%s)", label, off, arg.Name()), func(a *Act, st *State) Term { return app("<=", app("+", pv(a), offT), app("s_len", a.val(arg))) })
								}
								continue
							}
						}
						if a.dominatesHeader(other, li.header) && a.sortOf(other.Type()) == "Int" && !seenB[fmt.Sprintf("v:%s:%d", other.Name(), off)] {
							if _, isC := other.(*ssa.Const); isC {
								continue
							}
							seenB[fmt.Sprintf("v:%s:%d", other.Name(), off)] = true
							o := other
							addCand(fmt.Sprintf("%s+%d <= %s", label, off, other.Name()), func(a *Act, st *State) Term { return app("<=", app("+", pv(a), offT), a.val(o)) })
						}
					}
				}
			}
			if step > 1 || step < -1 {
				m := step
				if m < 0 {
					m = -m
				}
				addCand(fmt.Sprintf("(%s - init) %% %d == 0", label, m), func(a *Act, st *State) Term {
					return Eq(app("mod", app("-", pv(a), a.val(init)), IntLit(m)), "0")
				})
			}
		case *types.Slice:
			addCand(fmt.Sprintf("fresh-or-empty(%s)", label), func(a *Act, st *State) Term {
				p := pv(a)
				return Or(tr.writableAt(st, app("s_arr", p)), Eq(app("s_cap", p), "0"))
			})
			addCand(fmt.Sprintf("wf(%s)", label), func(a *Act, st *State) Term { return tr.wfSlice(pv(a)) })
			addCand(fmt.Sprintf("allocated(%s)", label), func(a *Act, st *State) Term { return app("<=", app("s_arr", pv(a)), st.alloc) })
		case *types.Map, *types.Pointer:
			addCand(fmt.Sprintf("fresh(%s)", label), func(a *Act, st *State) Term { return tr.writable(pv(a)) })
			addCand(fmt.Sprintf("%s != nil", label), func(a *Act, st *State) Term { return Not(Eq(pv(a), "0")) })
		}
	}
	// slices / maps held in private locals that are modified in the loop
	mods, _ := a.loopMods(li)
	for v, lv := range a.lvs {
		al, ok := v.(*ssa.Alloc)
		if !ok || lv.kind != lvLocal || !mods[lv.comp.name] {
			continue
		}
		lv := lv
		label := al.Comment
		a.localCandidates(lv, lv.typ, label, func(a *Act, st *State) Term { return a.load(st, lv) }, addCand, 0)
	}
	// user invariants from the contract
	if a.contract != nil && !tr.noUserInv {
		for _, ui := range a.contract.loopInvs[li.ord] {
			ui := ui
			if !tr.wantClause(ui) {
				continue
			}
			li.invs = append(li.invs, &loopInv{text: ui.text, user: true, header: li.header, eval: func(a *Act, st *State) Term {
				return a.evalSpecBool(st, ui.expr, li)
			}})
		}
	}
}

func (a *Act) localCandidates(lv *LV, t types.Type, label string, get func(a *Act, st *State) Term, addCand func(string, func(a *Act, st *State) Term), depth int) {
	tr := a.tr
	switch u := t.Underlying().(type) {
	case *types.Slice:
		if !isValueElem(u.Elem()) {
			return
		}
		addCand(fmt.Sprintf("fresh-or-empty(%s)", label), func(a *Act, st *State) Term {
			p := get(a, st)
			return Or(tr.writableAt(st, app("s_arr", p)), Eq(app("s_cap", p), "0"))
		})
		addCand(fmt.Sprintf("wf(%s)", label), func(a *Act, st *State) Term { return tr.wfSlice(get(a, st)) })
		addCand(fmt.Sprintf("allocated(%s)", label), func(a *Act, st *State) Term { return app("<=", app("s_arr", get(a, st)), st.alloc) })
	case *types.Map:
		addCand(fmt.Sprintf("fresh(%s)", label), func(a *Act, st *State) Term { return tr.writable(get(a, st)) })
		addCand(fmt.Sprintf("allocated(%s)", label), func(a *Act, st *State) Term { return app("<=", get(a, st), st.alloc) })
	case *types.Struct:
		if depth > 0 {
			return
		}
		si := tr.eng.sorts.structOf(t)
		if si == nil {
			return
		}
		for i := 0; i < u.NumFields(); i++ {
			i := i
			f := u.Field(i)
			a.localCandidates(lv, f.Type(), label+"."+f.Name(), func(a *Act, st *State) Term { return app(si.fields[i], get(a, st)) }, addCand, depth+1)
		}
	}
}

func (a *Act) dominatesHeader(v ssa.Value, h *ssa.BasicBlock) bool {
	switch v := v.(type) {
	case *ssa.Const, *ssa.Parameter, *ssa.FreeVar, *ssa.Global, *ssa.Function:
		return true
	case ssa.Instruction:
		return v.Block() != h && v.Block().Dominates(h)
	}
	return false
}

// stepOf: e == phi + c (possibly through a chain defined in the loop).
func stepOf(e ssa.Value, phi *ssa.Phi) (int64, bool) {
	b, ok := e.(*ssa.BinOp)
	if !ok {
		return 0, false
	}
	c, ok := b.Y.(*ssa.Const)
	if !ok || c.Value == nil || c.Value.Kind() != constant.Int {
		return 0, false
	}
	var base int64
	if b.X != ssa.Value(phi) {
		// allow phi+c1+c2
		inner, ok := stepOf(b.X, phi)
		if !ok {
			return 0, false
		}
		base = inner
	}
	switch b.Op {
	case token.ADD:
		return base + c.Int64(), true
	case token.SUB:
		return base - c.Int64(), true
	}
	return 0, false
}

// loopMods: names of heap components possibly written inside the loop.
func (a *Act) loopMods(li *loopInfo) (map[string]bool, bool) {
	mods := map[string]bool{}
	all := false
	for _, b := range sortedBlocks(li.blocks) {
		for _, in := range b.Instrs {
			if a.instrMods(in, mods, map[*ssa.Function]bool{a.fn: true}, 0) {
				all = true
			}
		}
	}
	return mods, all
}

func (a *Act) instrMods(in ssa.Instruction, mods map[string]bool, seen map[*ssa.Function]bool, depth int) bool {
	tr := a.tr
	switch in := in.(type) {
	case *ssa.Store:
		a.addrMods(in.Addr, mods)
	case *ssa.Alloc:
		a.addrMods(in, mods)
		et := in.Type().Underlying().(*types.Pointer).Elem()
		if arr, ok := et.Underlying().(*types.Array); ok {
			mods[tr.elemComp(arr.Elem()).name] = true
		}
	case *ssa.MapUpdate:
		d, v, l := tr.mapComps(in.Map.Type().Underlying().(*types.Map))
		mods[d.name], mods[v.name], mods[l.name] = true, true, true
	case *ssa.MakeMap:
		d, v, l := tr.mapComps(in.Type().Underlying().(*types.Map))
		mods[d.name], mods[v.name], mods[l.name] = true, true, true
	case *ssa.MakeSlice:
		mods[tr.elemComp(in.Type().Underlying().(*types.Slice).Elem()).name] = true
	case *ssa.Convert:
		if sl, ok := in.Type().Underlying().(*types.Slice); ok {
			mods[tr.elemComp(sl.Elem()).name] = true
		}
	case *ssa.FieldAddr, *ssa.IndexAddr:
		// interior pointers that become first-class snapshot into the shared cell component
		pt := in.(ssa.Value).Type().Underlying().(*types.Pointer).Elem()
		mods[tr.cellComp(pt).name] = true
	case *ssa.Call:
		return a.callMods(in.Common(), mods, seen, depth)
	case *ssa.Defer:
		return a.callMods(&in.Call, mods, seen, depth)
	case *ssa.Go:
	case *ssa.RunDefers:
		return false
	}
	return false
}

func (a *Act) addrMods(addr ssa.Value, mods map[string]bool) {
	tr := a.tr
	switch v := addr.(type) {
	case *ssa.Alloc:
		if lv, ok := a.lvs[v]; ok && lv.kind == lvLocal {
			mods[lv.comp.name] = true
			return
		}
		mods[tr.cellComp(v.Type().Underlying().(*types.Pointer).Elem()).name] = true
	case *ssa.FieldAddr:
		a.addrMods(v.X, mods)
		// the field may also be reached as a first-class cell
		mods[tr.cellComp(v.Type().Underlying().(*types.Pointer).Elem()).name] = true
	case *ssa.IndexAddr:
		switch xt := v.X.Type().Underlying().(type) {
		case *types.Slice:
			mods[tr.elemComp(xt.Elem()).name] = true
		case *types.Pointer:
			mods[tr.elemComp(xt.Elem().Underlying().(*types.Array).Elem()).name] = true
		}
	case *ssa.FreeVar:
		if a.creator != nil {
			if bv, ok := a.freeVars[v]; ok {
				a.creator.addrMods(bv, mods)
				return
			}
		}
		mods[tr.cellComp(v.Type().Underlying().(*types.Pointer).Elem()).name] = true
	default:
		if pt, ok := addr.Type().Underlying().(*types.Pointer); ok {
			mods[tr.cellComp(pt.Elem()).name] = true
		}
	}
}

func (a *Act) callMods(c *ssa.CallCommon, mods map[string]bool, seen map[*ssa.Function]bool, depth int) bool {
	tr := a.tr
	if b, ok := c.Value.(*ssa.Builtin); ok {
		switch b.Name() {
		case "append", "copy":
			mods[tr.elemComp(c.Args[0].Type().Underlying().(*types.Slice).Elem()).name] = true
		case "delete":
			d, v, l := tr.mapComps(c.Args[0].Type().Underlying().(*types.Map))
			mods[d.name], mods[v.name], mods[l.name] = true, true, true
		}
		return false
	}
	var callee *ssa.Function
	if c.IsInvoke() {
		callee = tr.eng.resolveInvoke(c)
	} else {
		callee = c.StaticCallee()
		if callee == nil {
			if cl := a.findClosure(c.Value); cl != nil {
				callee = cl.fn
			}
		}
	}
	if callee == nil {
		if c.IsInvoke() {
			key := fmt.Sprintf("(%s).%s", typeStr(c.Value.Type()), c.Method.Name())
			if tr.eng.stubFor(key) != nil {
				tr.eng.stubMods(key, mods, tr)
				return false
			}
			return false // unknown interface method outside the module: lisp heap untouched
		}
		if key := fieldOfValue(c.Value); key != "" {
			if fc := tr.eng.contracts.fieldContract(key); fc != nil && !tr.noContracts {
				return fc.mods(tr, mods)
			}
		}
		return true
	}
	name := callee.String()
	if tr.eng.stubFor(name) != nil {
		tr.eng.stubMods(name, mods, tr)
		return false
	}
	if fc := tr.eng.contracts.forFunc(callee); fc != nil && fc.modular() && fc.explicitFrame() && !tr.noContracts {
		return fc.mods(tr, mods)
	}
	inMod := callee.Pkg != nil && strings.HasPrefix(callee.Pkg.Pkg.Path(), modulePath) || callee.Parent() != nil || isInstantiation(callee)
	if !inMod {
		// external: may write through pointer arguments only
		for _, arg := range c.Args {
			if _, ok := arg.Type().Underlying().(*types.Pointer); ok {
				a.addrMods(arg, mods)
			}
		}
		return false
	}
	if len(callee.Blocks) == 0 {
		return true
	}
	if seen[callee] {
		return false // already being scanned: contributes nothing new
	}
	if cached, ok := tr.eng.modsCache[callee]; ok && len(seen) == 0 {
		for k := range cached.mods {
			mods[k] = true
		}
		return cached.all
	}
	topLevel := len(seen) == 0
	var own map[string]bool
	if topLevel {
		own = map[string]bool{}
		outer := mods
		mods = own
		defer func() {
			for k := range own {
				outer[k] = true
			}
		}()
	}
	seen[callee] = true
	defer delete(seen, callee)
	all := false
	defer func() {
		if topLevel {
			tr.eng.modsCache[callee] = modsEntry{mods: own, all: all}
		}
	}()
	// use a scratch activation for local-component lookup (callee locals are invisible to us)
	scratch := &Act{tr: tr, fn: callee, lvs: map[ssa.Value]*LV{}}
	for _, b := range callee.Blocks {
		for _, in := range b.Instrs {
			if st, ok := in.(*ssa.Store); ok {
				if al, ok := rootAlloc(st.Addr); ok && !escapes(al, 0) {
					continue // callee-private local
				}
			}
			if al, ok := in.(*ssa.Alloc); ok && !escapes(al, 0) {
				continue
			}
			if scratch.instrMods(in, mods, seen, depth+1) {
				all = true
			}
		}
	}
	return all
}

func rootAlloc(v ssa.Value) (*ssa.Alloc, bool) {
	for {
		switch x := v.(type) {
		case *ssa.Alloc:
			return x, true
		case *ssa.FieldAddr:
			v = x.X
		default:
			return nil, false
		}
	}
}

type modsEntry struct {
	mods map[string]bool
	all  bool
}

// calleeMods: components a module function may write (transitively), and whether that is unknown.
func (a *Act) calleeMods(callee *ssa.Function) (map[string]bool, bool) {
	mods := map[string]bool{}
	cc := &ssa.CallCommon{Value: callee}
	all := a.callMods(cc, mods, map[*ssa.Function]bool{}, 0)
	return mods, all
}

// innermostLoop: the innermost loop whose body contains block b, or, for a block that leaves the
// loop without returning to its head (an exit path), the innermost loop whose header dominates b.
func (a *Act) innermostLoop(b *ssa.BasicBlock) *loopInfo {
	var best *loopInfo
	for _, li := range a.loops {
		if li.blocks[b] && (best == nil || len(li.blocks) < len(best.blocks)) {
			best = li
		}
	}
	if best != nil {
		return best
	}
	for _, li := range a.loops {
		if li.header.Dominates(b) && (best == nil || best.header.Dominates(li.header)) {
			best = li
		}
	}
	return best
}
