package main

// C16, spec-level lemma (bounded): the grammar of result classes written in
// reader/zz_contracts_verif.go (rfStep / rlC, transcribed below as rfClass / rlClass) is compared,
// for every token sequence up to a length bound over the bracket alphabet, with the statement's own
// characterisation computed independently by a stack recogniser and brute-force completion:
//   (A) the sequence can be completed to ONE well-formed expression by appending closers
//       => class = EOF naming the first closer of the (unique) completion, i.e. the innermost open bracket;
//   (B) a complete single expression => class = ok (so it is never reported incomplete);
//   (C) an unmatched, wrong or surplus closer, or more than one expression => class = other
//       (never accepted, never the EOF class);
//   (D) incomplete texts that closers alone cannot mend (a reader macro lacks its operand): the
//       statement is silent; they must not be accepted.
// This checks the SPECIFICATION against the statement; the code is proved against the
// specification by the obligations of C16.

import "fmt"

const (
	clsOK    = 0
	clsOther = 5
)

func closerCls(c string) int {
	switch c {
	case ")":
		return 1
	case "]":
		return 2
	case "}":
		return 3
	case "»":
		return 4
	}
	return clsOther
}

// rfClass / rlClass: transcription of rfStep (deterministic on this alphabet) and rlC/rlP.
func rfClass(t []string, p int) (int, int) {
	if p >= len(t) {
		return clsOther, p
	}
	switch t[p] {
	case "'":
		return rfClass(t, p+1)
	case "^":
		c, q := rfClass(t, p+1)
		if c != 0 {
			return c, q
		}
		return rfClass(t, q)
	case ")", "]", "}", "»":
		return clsOther, p
	case "(":
		return rlClass(t, p+1, ")")
	case "[":
		return rlClass(t, p+1, "]")
	case "{", "#{":
		return rlClass(t, p+1, "}")
	case "«":
		return rlClass(t, p+1, "»")
	}
	return clsOK, p + 1 // atom
}

func rlClass(t []string, p int, end string) (int, int) {
	for {
		if p >= len(t) {
			return closerCls(end), p
		}
		if t[p] == end {
			return clsOK, p + 1
		}
		c, q := rfClass(t, p)
		if c != 0 {
			return c, q
		}
		p = q
	}
}

// specClass: Read_str's verdict on the whole sequence.
func specClass(t []string) int {
	c, q := rfClass(t, 0)
	if c == 0 && q != len(t) {
		return clsOther // left-over tokens
	}
	return c
}

// recogniser: independent of the grammar above (explicit stack, no recursion on forms). owed
// counts the forms still owed to prefix operators at a level; the bottom level owes the one
// expression of the text.
type c16frame struct {
	closer string
	owed   int
}

type c16machine struct {
	stack []c16frame
	done  bool
	bad   bool
}

func newC16machine() *c16machine { return &c16machine{stack: []c16frame{{closer: "", owed: 1}}} }

func (m *c16machine) formDone() {
	top := &m.stack[len(m.stack)-1]
	if top.owed > 0 {
		top.owed--
	}
	if len(m.stack) == 1 && top.owed == 0 {
		m.done = true
	}
}

func (m *c16machine) feed(tok string) {
	if m.bad {
		return
	}
	if m.done {
		m.bad = true // something after the single expression
		return
	}
	top := &m.stack[len(m.stack)-1]
	switch tok {
	case "'":
		if top.owed == 0 {
			top.owed = 1
		}
	case "^":
		if top.owed == 0 {
			top.owed = 2
		} else {
			top.owed++
		}
	case "(":
		m.stack = append(m.stack, c16frame{closer: ")"})
	case "[":
		m.stack = append(m.stack, c16frame{closer: "]"})
	case "{", "#{":
		m.stack = append(m.stack, c16frame{closer: "}"})
	case "«":
		m.stack = append(m.stack, c16frame{closer: "»"})
	case ")", "]", "}", "»":
		if len(m.stack) == 1 || top.closer != tok || top.owed != 0 {
			m.bad = true
			return
		}
		m.stack = m.stack[:len(m.stack)-1]
		m.formDone()
	default:
		m.formDone()
	}
}

func wellFormed(t []string) bool {
	m := newC16machine()
	for _, tok := range t {
		m.feed(tok)
	}
	return m.done && !m.bad
}

// completion: the closers that complete t to one well-formed expression, if any: the text so far
// must be acceptable, and closing the open brackets from the innermost outwards must be allowed at
// every step (no prefix operator still waiting for its operand) and must end the expression.
func completion(t []string) ([]string, bool) {
	m := newC16machine()
	for _, tok := range t {
		m.feed(tok)
	}
	if m.bad || m.done {
		return nil, false
	}
	var out []string
	for !m.done {
		if len(m.stack) == 1 {
			return nil, false // an operand is missing and there is no bracket left to close
		}
		c := m.stack[len(m.stack)-1].closer
		m.feed(c)
		if m.bad {
			return nil, false
		}
		out = append(out, c)
	}
	return out, len(out) > 0
}

// c16Lemma enumerates and returns (cases, failures).
func c16Lemma(maxLen int) (int, []string) {
	alpha := []string{"(", ")", "[", "]", "{", "}", "#{", "«", "»", "'", "^", "a"}
	var fails []string
	cases := 0
	seq := make([]string, 0, maxLen)
	var gen func()
	gen = func() {
		if len(seq) > 0 {
			cases++
			t := append([]string{}, seq...)
			got := specClass(t)
			m := newC16machine()
			for _, tok := range t {
				m.feed(tok)
			}
			msg := ""
			switch {
			case m.bad: // an unmatched, wrong or surplus closer, or more than one expression
				if got != clsOther {
					msg = "malformed text, must be the other class"
				}
			case m.done: // one complete expression
				if got != clsOK {
					msg = "complete expression, must be accepted"
				}
			default:
				if cl, ok := completion(t); ok {
					if got != closerCls(cl[0]) {
						msg = fmt.Sprintf("completable by %v, must be the EOF class of %s", cl, cl[0])
					}
				} else if got == clsOK {
					// incomplete in a way closers alone cannot mend (a prefix operator lacks its
					// operand): the statement is silent on the class, but it must not be accepted
					msg = "incomplete text accepted"
				}
			}
			if msg != "" && len(fails) < 20 {
				fails = append(fails, fmt.Sprintf("%v: grammar class %d: %s", t, got, msg))
			}
		}
		if len(seq) == maxLen {
			return
		}
		for _, a := range alpha {
			seq = append(seq, a)
			gen()
			seq = seq[:len(seq)-1]
		}
	}
	gen()
	return cases, fails
}
