package main

// Bounded stand-ins (labelled bounded, never counted as proved): where no contract within reach
// can express a property (string escaping codecs, the third-party scanner), the real functions
// are run on an enumerated family of inputs through a test injected with `go test -overlay`.
// The harness prints one line per failing case; failures are confirmed by construction (they
// are observed on the real code).

import (
	"bytes"
	"context"
	"encoding/json"
	"fmt"
	"os"
	"os/exec"
	"path/filepath"
	"strconv"
	"strings"
	"time"
)

// runBounded injects src as a test of the package at rel ("" = module root) and collects
//   BOUNDED-CASES <evaluations> <distinct>
//   BOUNDED-SAMPLE <text>
//   BOUNDED-FAIL <case name> :: <detail>
func (c *CheckCtx) runBounded(rel, src, rule string, exhaustive bool) {
	dir, err := os.MkdirTemp(c.scratch, "bounded-")
	if err != nil {
		c.machineryErrors = append(c.machineryErrors, "bounded harness: "+err.Error())
		return
	}
	defer os.RemoveAll(dir)
	target := filepath.Join(c.eng.repo, rel, "zz_govc_bounded_test.go")
	testFile := filepath.Join(dir, "bounded_test.go")
	os.WriteFile(testFile, []byte(src), 0o644)
	ov, _ := json.Marshal(map[string]any{"Replace": map[string]string{target: testFile}})
	ovFile := filepath.Join(dir, "overlay.json")
	os.WriteFile(ovFile, ov, 0o644)
	ctx, cancel := context.WithTimeout(context.Background(), 20*time.Minute)
	defer cancel()
	pkg := "./" + rel
	if rel == "" {
		pkg = "."
	}
	cmd := exec.CommandContext(ctx, "go", "test", "-tags", "verif", "-overlay", ovFile, "-vet=off", "-count=1", "-timeout", "15m", "-run", "^TestGovcBounded$", "-v", pkg)
	cmd.Dir = c.eng.repo
	cmd.Env = append(goEnv(), "VERIF_TIER="+c.tier, fmt.Sprintf("VERIF_SEED=%d", c.seed))
	var out bytes.Buffer
	cmd.Stdout = &out
	cmd.Stderr = &out
	cmd.Run()
	st := &BoundedStats{Rule: rule, Exhaustive: exhaustive}
	sawCases := false
	for _, ln := range strings.Split(out.String(), "\n") {
		ln = strings.TrimSpace(ln)
		if i := strings.Index(ln, "BOUNDED-"); i >= 0 {
			ln = ln[i:]
		} else {
			continue
		}
		switch {
		case strings.HasPrefix(ln, "BOUNDED-CASES "):
			fs := strings.Fields(ln)
			if len(fs) >= 3 {
				st.Evaluations, _ = strconv.Atoi(fs[1])
				st.Distinct, _ = strconv.Atoi(fs[2])
				sawCases = true
			}
		case strings.HasPrefix(ln, "BOUNDED-SAMPLE "):
			if len(st.Samples) < 12 {
				st.Samples = append(st.Samples, strings.TrimPrefix(ln, "BOUNDED-SAMPLE "))
			}
		case strings.HasPrefix(ln, "BOUNDED-FAIL "):
			rest := strings.TrimPrefix(ln, "BOUNDED-FAIL ")
			name, detail := rest, ""
			if i := strings.Index(rest, " :: "); i >= 0 {
				name, detail = rest[:i], rest[i+4:]
			}
			c.failures = append(c.failures, &Failure{Name: c.prop.ID + "/bounded/" + name, Extra: "observed on the real code (bounded harness):\n" + detail, Confirm: "confirmed"})
		}
	}
	if !sawCases {
		txt := out.String()
		if len(txt) > 1500 {
			txt = txt[len(txt)-1500:]
		}
		c.machineryErrors = append(c.machineryErrors, "bounded harness did not complete: "+txt)
	}
	c.bounded = st
}
