package main

// Instruction-level translation.

import (
	"os"
	"fmt"
	"strings"
	"go/constant"
	"go/token"
	"go/types"

	"golang.org/x/tools/go/ssa"
)

func init() { _ = constant.StringVal }

func (a *Act) instr(st *State, b *ssa.BasicBlock, instr ssa.Instruction) {
	tr := a.tr
	sorts := tr.eng.sorts
	if instr.Pos().IsValid() {
		a.curPos = instr.Pos()
	}
	a.cur = st
	a.curBlock = b
	if a.contract != nil && len(a.contract.atAsserts) > 0 && instr.Pos().IsValid() && a.parent == nil {
		pp := tr.eng.fset.Position(instr.Pos())
		_, src := a.srcLine(instr.Pos())
		ns := normSrc(src)
		for ai, aa := range a.contract.atAsserts {
			if aa.src != ns {
				continue
			}
			if _, isDbg := instr.(*ssa.DebugRef); isDbg {
				continue
			}
			if aa.occ > 0 && a.occurrenceOf(pp.Filename, pp.Line, ns) != aa.occ {
				continue
			}
			key := fmt.Sprintf("assert/%p/%s/%d/%d/%d", a, aa.src, aa.occ, pp.Line, ai)
			if !tr.atDone[key] {
				tr.atDone[key] = true
				e := &specEnv{a: a, tr: tr, pkg: a.contract.pkg, st: st, old: a.entryState, vars: map[string]specVal{}, errs: &tr.specErrs, preferLocals: true, atLi: a.innermostLoop(b)}
				g := e.evalBool(aa.cl.expr)
				fname := fnName(a.fn)
				base := fmt.Sprintf("%s/assert/«%s»@«%s»", fname, normSrc(aa.cl.text), aa.src)
				tr.oblCount[base]++
				loc, _ := a.srcLine(instr.Pos())
				tr.obls = append(tr.obls, &Obligation{Name: fmt.Sprintf("%s#%d", base, tr.oblCount[base]), Kind: "assert", Fn: fname, Pos: loc, Src: aa.cl.text, Guard: st.reach, Goal: g})
				// a cut: once checked here (the obligation above, same run) it is available downstream
				if as := tr.assume(Implies(st.reach, g), "asserted (and checked) at «"+aa.src+"»: "+aa.cl.text); as != nil {
					as.MinObl = len(tr.obls) + 1
				}
			}
		}
	}
	if a.contract != nil && a.parent == nil && len(a.contract.tailrec) > 0 && instr.Pos().IsValid() {
		for ord, ts := range a.contract.tailrec {
			if len(ts.readsAt) == 0 {
				continue
			}
			if _, isDbg := instr.(*ssa.DebugRef); isDbg {
				continue
			}
			pp := tr.eng.fset.Position(instr.Pos())
			_, src := a.srcLine(instr.Pos())
			ns := normSrc(src)
			if os.Getenv("GOVC_DBG") != "" && strings.Contains(ns, "exp, e") {
				fmt.Fprintf(os.Stderr, "readsat candidate %q vs %q\n", ns, ts.readsAt[0].src)
			}
			for _, ra := range ts.readsAt {
				if ra.src != ns || (ra.occ > 0 && a.occurrenceOf(pp.Filename, pp.Line, ns) != ra.occ) {
					continue
				}
				key := fmt.Sprintf("readsat/%p/%d/%s/%d", a, ord, ra.src, pp.Line)
				if !tr.atDone[key] {
					tr.atDone[key] = true
					if a.readsAt == nil {
						a.readsAt = map[int][]readsAtSnap{}
					}
					a.readsAt[ord] = append(a.readsAt[ord], readsAtSnap{st: st.copy(), block: b})
					if os.Getenv("GOVC_DBG") != "" {
						fmt.Fprintf(os.Stderr, "readsat captured at %s block %d\n", pp, b.Index)
					}
				}
			}
		}
	}
	if a.contract != nil && len(a.contract.atAssumes) > 0 && instr.Pos().IsValid() {
		pp := tr.eng.fset.Position(instr.Pos())
		_, src := a.srcLine(instr.Pos())
		ns := normSrc(src)
		for ai, aa := range a.contract.atAssumes {
			if aa.src != ns {
				continue
			}
			if _, isDbg := instr.(*ssa.DebugRef); isDbg {
				continue
			}
			// which occurrence (by source line) of this text is it?
			if aa.occ > 0 && a.occurrenceOf(pp.Filename, pp.Line, ns) != aa.occ {
				continue
			}
			key := fmt.Sprintf("%p/%s/%d/%d/%d", a, aa.src, aa.occ, pp.Line, ai)
			if !tr.atDone[key] {
				tr.atDone[key] = true
				e := &specEnv{a: a, tr: tr, pkg: a.contract.pkg, st: st, old: a.entryState, vars: map[string]specVal{}, errs: &tr.specErrs, preferLocals: true}
				tr.assume(Implies(st.reach, e.evalBool(aa.cl.expr)), "assumed at «"+aa.src+"»: "+aa.cl.text)
				tr.usedAssumed[fnName(a.fn)+" at «"+aa.src+"»: "+aa.cl.text] = true
			}
		}
	}
	switch in := instr.(type) {
	case *ssa.DebugRef:
	case *ssa.Phi:
		// defined in blockIn
	case *ssa.Alloc:
		et := in.Type().Underlying().(*types.Pointer).Elem()
		if arr, ok := et.Underlying().(*types.Array); ok {
			// fresh backing array, zero-initialised
			id := tr.define(a.prefix+in.Name(), "Int", app("+", st.alloc, "1"))
			st.alloc = id
			c := tr.elemComp(arr.Elem())
			st.heap[c.name] = tr.heapZero(tr.heapOf(st, c), id, sorts.zero(arr.Elem()))
			a.vals[in] = id
			return
		}
		if lv, ok := a.lvs[in]; ok && lv.kind == lvLocal {
			a.store(st, lv, sorts.zero(et))
			return
		}
		id := tr.define(a.prefix+in.Name(), "Int", app("+", st.alloc, "1"))
		st.alloc = id
		a.vals[in] = id
		st.owned[a.prefix+in.Name()] = ownedCell{addr: id, comp: tr.cellComp(et).name}
		lv := &LV{kind: lvCell, typ: et, addr: id}
		a.lvs[in] = lv
		a.store(st, lv, sorts.zero(et))
	case *ssa.FieldAddr:
		base := a.lvOf(st, in.X)
		pt := in.X.Type().Underlying().(*types.Pointer).Elem()
		stt := pt.Underlying().(*types.Struct)
		if base.kind == lvCell && !knownNonNil(in.X) {
			a.mayPanic(st, "nilderef", in.Pos(), Not(Eq(base.addr, "0")), "")
		}
		a.lvs[in] = &LV{kind: lvField, typ: stt.Field(in.Field).Type(), base: base, field: in.Field}
	case *ssa.Field:
		x := a.val(in.X)
		si := sorts.structOf(in.X.Type())
		if si == nil {
			// a struct of a foreign package: its fields are functions of the (opaque) value
			fn := "ofld_" + mangle(typeKey(in.X.Type())) + "_" + fmt.Sprint(in.Field)
			tr.eng.declareOnce(tr, fn, fmt.Sprintf("(declare-fun %s (Int) %s)", fn, a.sortOf(in.Type())))
			a.setVal(in, app(fn, x))
			return
		}
		a.setVal(in, app(si.fields[in.Field], x))
	case *ssa.IndexAddr:
		idx := a.val(in.Index)
		switch xt := in.X.Type().Underlying().(type) {
		case *types.Slice:
			s := a.val(in.X)
			a.mayPanic(st, "index", in.Pos(), And(app("<=", "0", idx), app("<", idx, app("s_len", s))), "")
			a.lvs[in] = &LV{kind: lvElem, typ: xt.Elem(), arr: app("s_arr", s), idx: tr.define("ix", "Int", app("+", app("s_off", s), idx))}
		case *types.Pointer:
			arr := xt.Elem().Underlying().(*types.Array)
			id := a.val(in.X)
			a.mayPanic(st, "index", in.Pos(), And(app("<=", "0", idx), app("<", idx, IntLit(arr.Len()))), "")
			a.lvs[in] = &LV{kind: lvElem, typ: arr.Elem(), arr: id, idx: idx}
		default:
			tr.unsupp("%s: IndexAddr on %s", fnName(a.fn), in.X.Type())
		}
	case *ssa.Index:
		switch xt := in.X.Type().Underlying().(type) {
		case *types.Basic: // string
			s := a.val(in.X)
			idx := a.val(in.Index)
			a.mayPanic(st, "index", in.Pos(), And(app("<=", "0", idx), app("<", idx, app("str.len", s))), "")
			a.setVal(in, app("str.to_code", app("str.at", s, idx)))
		default:
			_ = xt
			tr.unsupp("%s: Index on %s", fnName(a.fn), in.X.Type())
			a.vals[in] = tr.freshConst("index", a.sortOf(in.Type()))
		}
	case *ssa.Store:
		lv := a.lvOf(st, in.Addr)
		if lv.kind == lvCell && !knownNonNil(in.Addr) {
			a.mayPanic(st, "nilderef", in.Pos(), Not(Eq(lv.addr, "0")), "")
		}
		a.storeCheck(st, lv, in.Pos())
		a.checkGuardedAccess(st, lv, true, in.Pos(), nil)
		a.checkSharedFlag(st, lv, true, a.valAs(st, in.Val), in.Pos())
		if g, ok := in.Addr.(*ssa.Global); ok && tr.lockMode && tr.globalStoreGuard != nil {
			a.oblige(st, "global/store", in.Pos(), "true", tr.globalStoreGuard(a, st, g), map[string]Term{"global": fmt.Sprintf("%q", g.Name())})
		}
		a.store(st, lv, a.valAs(st, in.Val))
	case *ssa.UnOp:
		a.unop(st, in)
	case *ssa.BinOp:
		a.binop(st, in)
	case *ssa.MakeInterface:
		x := a.valAs(st, in.X)
		if tr.typeInvMode {
			if g := tr.typeInvFor(in.X.Type(), x, st); g != "true" {
				a.oblige(st, "typeinv", in.Pos(), "true", g, nil)
			}
		}
		a.setVal(in, sorts.mkVal(in.X.Type(), x))
	case *ssa.ChangeInterface:
		a.vals[in] = a.val(in.X)
	case *ssa.ChangeType:
		a.changeType(st, in)
	case *ssa.Convert:
		a.convert(st, in)
	case *ssa.TypeAssert:
		a.typeAssert(st, in)
	case *ssa.Extract:
		tup := a.tups[in.Tuple]
		if tup == nil || in.Index >= len(tup) {
			tr.unsupp("%s: extract from unknown tuple %s", fnName(a.fn), in.Tuple.Name())
			a.vals[in] = tr.freshConst("extract", a.sortOf(in.Type()))
			return
		}
		a.vals[in] = tup[in.Index]
	case *ssa.Slice:
		a.slice(st, in)
	case *ssa.MakeSlice:
		ln := a.val(in.Len)
		cp := a.val(in.Cap)
		a.mayPanic(st, "makeslice", in.Pos(), And(app("<=", "0", ln), app("<=", ln, cp)), "")
		id := tr.define(a.prefix+in.Name()+"_arr", "Int", app("+", st.alloc, "1"))
		st.alloc = id
		elem := in.Type().Underlying().(*types.Slice).Elem()
		c := tr.elemComp(elem)
		st.heap[c.name] = tr.heapZero(tr.heapOf(st, c), id, sorts.zero(elem))
		a.setVal(in, app("mkSlice", id, "0", ln, cp))
	case *ssa.MakeMap:
		id := tr.define(a.prefix+in.Name(), "Int", app("+", st.alloc, "1"))
		st.alloc = id
		mt := in.Type().Underlying().(*types.Map)
		dom, _, ln := tr.mapComps(mt)
		st.heap[dom.name] = tr.heapZero(tr.heapOf(st, dom), id, "false")
		st.heap[ln.name] = tr.heapZero(tr.heapOf(st, ln), id, "0")
		a.vals[in] = id
	case *ssa.MakeChan:
		id := tr.define(a.prefix+in.Name(), "Int", app("+", st.alloc, "1"))
		st.alloc = id
		a.vals[in] = id
	case *ssa.MakeClosure:
		fn := in.Fn.(*ssa.Function)
		id := tr.define(a.prefix+in.Name(), "Int", app("+", st.alloc, "1"))
		st.alloc = id
		cl := &Closure{fn: fn, bindings: in.Bindings, act: a, id: id}
		a.closures[in] = cl
		a.vals[in] = id
		tr.eng.noteClosure(tr, cl)
		// captured variables escape: make sure first-class addresses exist
		localOnly := closureLocalOnly(in)
		for _, bv := range in.Bindings {
			if al, ok := bv.(*ssa.Alloc); ok && !localOnly {
				delete(st.owned, a.prefix+al.Name())
			}
			if lv, ok := a.lvs[bv]; ok && lv.kind != lvCell && lv.kind != lvLocal {
				a.firstClass(st, lv)
			}
		}
	case *ssa.Lookup:
		a.lookup(st, in)
	case *ssa.MapUpdate:
		a.mapUpdate(st, in)
	case *ssa.Range:
		a.rangeInit(st, in)
	case *ssa.Next:
		a.next(st, in)
	case *ssa.Call:
		res := a.call(st, in.Common(), in, in.Pos())
		a.bindResults(st, in, res)
	case *ssa.Defer:
		st.defers[in] = "true"
		a.noteDefer(st, in)
	case *ssa.Go:
		a.goStmt(st, in)
	case *ssa.RunDefers:
		a.runDefers(st, b)
	case *ssa.Panic:
		a.mayPanicExplicit(st, in)
	case *ssa.Return:
		results := make([]Term, len(in.Results))
		for i, r := range in.Results {
			results[i] = a.valAs(st, r)
		}
		a.atReturn(st, in, results)
		a.checkLockBalance(st, in.Pos())
		a.rets = append(a.rets, retEdge{st: st.copy(), results: results})
	case *ssa.If:
		c := a.val(in.Cond)
		s0 := st.copy()
		s0.reach = tr.define("reach", "Bool", And(st.reach, c))
		s1 := st.copy()
		s1.reach = tr.define("reach", "Bool", And(st.reach, Not(c)))
		a.setEdge(b, b.Succs[0], s0)
		a.setEdge(b, b.Succs[1], s1)
	case *ssa.Jump:
		a.setEdge(b, b.Succs[0], st.copy())
	case *ssa.Select:
		a.selectStmt(st, in)
	case *ssa.Send:
		a.send(st, in)
	default:
		tr.unsupp("%s: instruction %T", fnName(a.fn), instr)
		if v, ok := instr.(ssa.Value); ok {
			a.vals[v] = tr.freshConst("unsupported", a.sortOf(v.Type()))
		}
	}
}

// valAs returns the value of v, converting lvalue-pointers to first-class addresses.
func (a *Act) valAs(st *State, v ssa.Value) Term {
	if _, ok := a.vals[v]; !ok {
		if lv, ok := a.lvs[v]; ok {
			t := a.firstClass(st, lv)
			return t
		}
	}
	return a.val(v)
}

func (a *Act) bindResults(st *State, v ssa.Value, res []Term) {
	tr := a.tr
	switch tt := v.Type().(type) {
	case *types.Tuple:
		for len(res) < tt.Len() {
			res = append(res, tr.freshConst("res", a.sortOf(tt.At(len(res)).Type())))
		}
		a.tups[v] = res
	default:
		if len(res) == 0 {
			res = []Term{tr.freshConst("res", a.sortOf(v.Type()))}
		}
		a.vals[v] = res[0]
	}
}

func (a *Act) unop(st *State, in *ssa.UnOp) {
	tr := a.tr
	switch in.Op {
	case token.MUL: // load
		lv := a.lvOf(st, in.X)
		if lv.kind == lvCell && !knownNonNil(in.X) {
			a.mayPanic(st, "nilderef", in.Pos(), Not(Eq(lv.addr, "0")), "")
		}
		t := a.load(st, lv)
		a.setVal(in, t)
		a.assumeWFInv(st, in.Type(), a.vals[in], 1, !rootedAtAlloc(in.X))
		if g, ok := in.X.(*ssa.Global); ok {
			if msg, ok := tr.eng.constErrGlobs[g]; ok {
				// var ErrX = errors.New("literal"), never assigned: a non-nil plain error with that text
				code := tr.eng.sorts.otherCode("goerror")
				name := "errvar_" + mangle(g.Pkg.Pkg.Name()+"_"+g.Name())
				tr.eng.declareOnce(tr, name, fmt.Sprintf("(declare-const %s Int)", name))
				tr.eng.declareOnce(tr, "spec_errorString", "(declare-fun spec_errorString (Val) String)")
				v := fmt.Sprintf("(VOther %d %s)", code, name)
				tr.assume(Implies(st.reach, And(Eq(a.vals[in], v), Eq(app("spec_errorString", v), StrLit(msg)))), "A-ERRVAR: "+g.Name()+" is errors.New of a literal and never assigned")
				tr.usedAssumed["A-ERRVAR: package variable "+g.Name()+" = errors.New(literal) is never assigned (inside the module: checked; outside: assumed)"] = true
			}
		}
		a.checkGuardedAccess(st, lv, false, in.Pos(), in)
		a.checkSharedFlag(st, lv, false, "", in.Pos())
		if lv.kind == lvField && !rootedAtAlloc(in.X) {
			// the enclosing heap-resident struct satisfies its type invariant (not for a variable
			// of this function: its invariant is what the construction site has to prove)
			b := lv.base
			for b.kind == lvField {
				b = b.base
			}
			if b.kind == lvCell || b.kind == lvElem {
				if inv := tr.typeInvFor(b.typ, a.load(st, b), st); inv != "true" {
					tr.assume(Implies(st.reach, inv), "type invariant of the enclosing "+typeStr(b.typ))
				}
			}
		}
	case token.NOT:
		a.setVal(in, Not(a.val(in.X)))
	case token.SUB:
		a.setVal(in, app("-", a.val(in.X)))
	case token.ARROW:
		a.recv(st, in)
	case token.XOR:
		a.vals[in] = tr.freshConst("xor", "Int")
	default:
		tr.unsupp("%s: unop %s", fnName(a.fn), in.Op)
		a.vals[in] = tr.freshConst("unop", a.sortOf(in.Type()))
	}
}

func isString(t types.Type) bool {
	b, ok := t.Underlying().(*types.Basic)
	return ok && b.Info()&types.IsString != 0
}

func isFloat(t types.Type) bool {
	b, ok := t.Underlying().(*types.Basic)
	return ok && b.Info()&(types.IsFloat|types.IsComplex) != 0
}

func (a *Act) binop(st *State, in *ssa.BinOp) {
	tr := a.tr
	x, y := a.valAs(st, in.X), a.valAs(st, in.Y)
	xt := in.X.Type()
	if isFloat(xt) {
		switch in.Op {
		case token.EQL:
			a.setVal(in, Eq(x, y))
		case token.NEQ:
			a.setVal(in, Not(Eq(x, y)))
		default:
			a.vals[in] = tr.freshConst("float", a.sortOf(in.Type()))
		}
		return
	}
	switch in.Op {
	case token.ADD:
		if isString(xt) {
			a.setVal(in, app("str.++", x, y))
		} else {
			a.setVal(in, app("+", x, y))
		}
	case token.SUB:
		a.setVal(in, app("-", x, y))
	case token.MUL:
		a.setVal(in, app("*", x, y))
	case token.QUO:
		a.mayPanic(st, "div", in.Pos(), Not(Eq(y, "0")), "")
		a.setVal(in, goDiv(x, y))
	case token.REM:
		a.mayPanic(st, "div", in.Pos(), Not(Eq(y, "0")), "")
		a.setVal(in, goRem(x, y))
	case token.EQL, token.NEQ:
		var t Term
		if isInterface(xt) || isInterface(in.Y.Type()) {
			xv := tr.eng.sorts.mkVal(xt, x)
			yv := tr.eng.sorts.mkVal(in.Y.Type(), y)
			// comparing two interface values whose dynamic types are equal and uncomparable panics
			if isInterface(xt) && isInterface(in.Y.Type()) {
				a.mayPanic(st, "uncomparable", in.Pos(), Not(And(tr.eng.uncomparable(xv), tr.eng.uncomparable(yv), tr.eng.sameDynType(xv, yv))), "")
			}
			t = Eq(xv, yv)
		} else {
			t = Eq(x, y)
		}
		if in.Op == token.NEQ {
			t = Not(t)
		}
		a.setVal(in, t)
	case token.LSS, token.LEQ, token.GTR, token.GEQ:
		op := map[token.Token]string{token.LSS: "<", token.LEQ: "<=", token.GTR: ">", token.GEQ: ">="}[in.Op]
		if isString(xt) {
			sop := map[token.Token]string{token.LSS: "str.<", token.LEQ: "str.<="}[in.Op]
			switch in.Op {
			case token.LSS, token.LEQ:
				a.setVal(in, app(sop, x, y))
			case token.GTR:
				a.setVal(in, app("str.<", y, x))
			case token.GEQ:
				a.setVal(in, app("str.<=", y, x))
			}
		} else {
			a.setVal(in, app(op, x, y))
		}
	default:
		// bit operations, shifts: opaque
		a.vals[in] = tr.freshConst("bitop", a.sortOf(in.Type()))
	}
}

func goDiv(x, y Term) Term {
	// Go truncates toward zero; SMT div floors for positive divisor
	return fmt.Sprintf("(ite (>= %s 0) (div %s %s) (- (div (- %s) %s)))", x, x, y, x, y)
}

func goRem(x, y Term) Term {
	return fmt.Sprintf("(ite (>= %s 0) (mod %s (abs %s)) (- (mod (- %s) (abs %s))))", x, x, y, x, y)
}

func (a *Act) changeType(st *State, in *ssa.ChangeType) {
	tr := a.tr
	from, to := a.sortOf(in.X.Type()), a.sortOf(in.Type())
	x := a.valAs(st, in.X)
	if from == to {
		a.vals[in] = x
		return
	}
	sf, stt := tr.eng.sorts.structOf(in.X.Type()), tr.eng.sorts.structOf(in.Type())
	if sf != nil && stt != nil && len(sf.fields) == len(stt.fields) {
		args := make([]Term, len(sf.fields))
		for i, f := range sf.fields {
			args[i] = app(f, x)
		}
		a.setVal(in, app(stt.ctor, args...))
		return
	}
	tr.unsupp("%s: ChangeType %s -> %s", fnName(a.fn), in.X.Type(), in.Type())
	a.vals[in] = tr.freshConst("changetype", to)
}

func (a *Act) convert(st *State, in *ssa.Convert) {
	tr := a.tr
	from, to := in.X.Type().Underlying(), in.Type().Underlying()
	fb, fok := from.(*types.Basic)
	tb, tok := to.(*types.Basic)
	if fok && tok {
		fi, ti := fb.Info(), tb.Info()
		switch {
		case fi&types.IsInteger != 0 && ti&types.IsInteger != 0:
			a.vals[in] = a.val(in.X) // A-INT: no wrap-around
			return
		case fi&types.IsString != 0 && ti&types.IsString != 0:
			a.vals[in] = a.val(in.X)
			return
		}
	}
	// string <-> []byte/[]rune, int -> string, float conversions: opaque fresh value
	c := tr.freshConst("conv", a.sortOf(in.Type()))
	a.vals[in] = c
	if _, ok := to.(*types.Slice); ok {
		// a fresh backing array
		tr.assume(Implies(st.reach, And(tr.wfSlice(c), app(">", app("s_arr", c), st.alloc))), "conversion result is a fresh slice")
		st.alloc = tr.define("alloc", "Int", app("+", app("s_arr", c), "0"))
	}
}

func (a *Act) typeAssert(st *State, in *ssa.TypeAssert) {
	tr := a.tr
	sorts := tr.eng.sorts
	x := a.val(in.X)
	var ok, v Term
	if isInterface(in.AssertedType) {
		iface := in.AssertedType.Underlying().(*types.Interface)
		if iface.NumMethods() == 0 {
			ok = Not(Eq(x, "VNil"))
		} else {
			ok = app(sorts.implPred(in.AssertedType), x)
		}
		v = x
	} else {
		ok = sorts.isCtor(in.AssertedType, x)
		v = sorts.unVal(in.AssertedType, x)
	}
	ok = tr.define("ta_ok", "Bool", ok)
	if in.CommaOk {
		// value is the zero value when !ok
		vv := tr.define(a.prefix+in.Name()+"_v", a.sortOf(in.AssertedType), Ite(ok, v, sorts.zero(in.AssertedType)))
		a.tups[in] = []Term{vv, ok}
		// well-formedness and the data invariant hold for the asserted value only when the
		// assertion succeeded (the zero value of the !ok case need not satisfy an invariant)
		okSt := st.copy()
		okSt.reach = And(st.reach, ok)
		a.assumeWF(okSt, in.AssertedType, vv, 1)
		return
	}
	a.mayPanic(st, "assert", in.Pos(), ok, "")
	a.setVal(in, v)
	a.assumeWF(st, in.AssertedType, a.vals[in], 1)
}

func (a *Act) slice(st *State, in *ssa.Slice) {
	tr := a.tr
	var lo, hi, mx Term
	if in.Low != nil {
		lo = a.val(in.Low)
	} else {
		lo = "0"
	}
	switch xt := in.X.Type().Underlying().(type) {
	case *types.Slice:
		s := a.val(in.X)
		if in.High != nil {
			hi = a.val(in.High)
		} else {
			hi = app("s_len", s)
		}
		capT := app("s_cap", s)
		if in.Max != nil {
			mx = a.val(in.Max)
			a.mayPanic(st, "slice", in.Pos(), And(app("<=", "0", lo), app("<=", lo, hi), app("<=", hi, mx), app("<=", mx, capT)), "")
		} else {
			mx = capT
			a.mayPanic(st, "slice", in.Pos(), And(app("<=", "0", lo), app("<=", lo, hi), app("<=", hi, capT)), "")
		}
		a.setVal(in, app("mkSlice", app("s_arr", s), app("+", app("s_off", s), lo), app("-", hi, lo), app("-", mx, lo)))
	case *types.Basic:
		s := a.val(in.X)
		if in.High != nil {
			hi = a.val(in.High)
		} else {
			hi = app("str.len", s)
		}
		a.mayPanic(st, "slice", in.Pos(), And(app("<=", "0", lo), app("<=", lo, hi), app("<=", hi, app("str.len", s))), "")
		a.setVal(in, app("str.substr", s, lo, app("-", hi, lo)))
	case *types.Pointer:
		arr := xt.Elem().Underlying().(*types.Array)
		id := a.val(in.X)
		n := IntLit(arr.Len())
		if in.High != nil {
			hi = a.val(in.High)
		} else {
			hi = n
		}
		a.mayPanic(st, "slice", in.Pos(), And(app("<=", "0", lo), app("<=", lo, hi), app("<=", hi, n)), "")
		a.setVal(in, app("mkSlice", id, lo, app("-", hi, lo), app("-", n, lo)))
	default:
		tr.unsupp("%s: Slice of %s", fnName(a.fn), in.X.Type())
		a.vals[in] = tr.freshConst("slice", a.sortOf(in.Type()))
	}
}

func (a *Act) lookup(st *State, in *ssa.Lookup) {
	tr := a.tr
	switch xt := in.X.Type().Underlying().(type) {
	case *types.Map:
		m := a.val(in.X)
		k := a.valAs(st, in.Index)
		if isInterface(xt.Key()) {
			k = tr.eng.sorts.mkVal(in.Index.Type(), k)
		}
		a.checkMapAccess(st, in.X, false, in.Pos())
		dom, val, _ := tr.mapComps(xt)
		present := tr.define("present", "Bool", And(Not(Eq(m, "0")), tr.read(tr.heapOf(st, dom), m, k)))
		v := Ite(present, tr.read(tr.heapOf(st, val), m, k), tr.eng.sorts.zero(xt.Elem()))
		v = tr.define(a.prefix+in.Name(), a.sortOf(xt.Elem()), v)
		if in.CommaOk {
			a.tups[in] = []Term{v, present}
		} else {
			a.vals[in] = v
		}
		a.assumeWF(st, xt.Elem(), v, 1)
	case *types.Basic:
		s := a.val(in.X)
		idx := a.val(in.Index)
		a.mayPanic(st, "index", in.Pos(), And(app("<=", "0", idx), app("<", idx, app("str.len", s))), "")
		a.setVal(in, app("str.to_code", app("str.at", s, idx)))
	default:
		tr.unsupp("%s: Lookup on %s", fnName(a.fn), in.X.Type())
	}
}

// storeCheck emits the C02 frame obligation for a store through lv when it
// designates an element of a value container.
func (a *Act) storeCheck(st *State, lv *LV, pos token.Pos) {
	if lv.kind == lvElem && a.tr.frameMode && isValueElem(lv.typ) {
		a.oblige(st, "frame/store", pos, "true", a.tr.writableAt(st, lv.arr), map[string]Term{"target": lv.arr})
	}
}

// writable(id): the container was allocated by this activation of the root function
// (or the contract says the root may assign it).
func (tr *Tr) writable(id Term) Term {
	t := app(">", id, tr.alloc0)
	for _, f := range tr.assignOK {
		t = Or(t, f(id))
	}
	return t
}

func (a *Act) mapUpdate(st *State, in *ssa.MapUpdate) {
	tr := a.tr
	mt := in.Map.Type().Underlying().(*types.Map)
	m := a.val(in.Map)
	k := a.valAs(st, in.Key)
	if isInterface(mt.Key()) {
		k = tr.eng.sorts.mkVal(in.Key.Type(), k)
	}
	v := a.valAs(st, in.Value)
	if isInterface(mt.Elem()) {
		v = tr.eng.sorts.mkVal(in.Value.Type(), v)
	}
	a.mayPanic(st, "nilmap", in.Pos(), Not(Eq(m, "0")), "")
	a.checkMapAccess(st, in.Map, true, in.Pos())
	dom, val, ln := tr.mapComps(mt)
	if tr.frameMode && dom.value {
		a.oblige(st, "frame/store", in.Pos(), "true", tr.writableAt(st, m), map[string]Term{"target": m})
	}
	was := tr.read(tr.heapOf(st, dom), m, k)
	oldLen := tr.read(tr.heapOf(st, ln), m)
	st.heap[ln.name] = tr.heapStore(tr.heapOf(st, ln), []Term{m}, tr.define("mlen", "Int", Ite(was, oldLen, app("+", oldLen, "1"))))
	st.heap[dom.name] = tr.heapStore(tr.heapOf(st, dom), []Term{m, k}, "true")
	st.heap[val.name] = tr.heapStore(tr.heapOf(st, val), []Term{m, k}, v)
}

func (a *Act) mapDelete(st *State, mt *types.Map, m, k Term, pos token.Pos) {
	tr := a.tr
	dom, _, ln := tr.mapComps(mt)
	if tr.frameMode && dom.value {
		a.oblige(st, "frame/store", pos, Not(Eq(m, "0")), tr.writableAt(st, m), map[string]Term{"target": m})
	}
	was := And(Not(Eq(m, "0")), tr.read(tr.heapOf(st, dom), m, k))
	oldLen := tr.read(tr.heapOf(st, ln), m)
	st.heap[ln.name] = tr.heapStore(tr.heapOf(st, ln), []Term{m}, tr.define("mlen", "Int", Ite(was, app("-", oldLen, "1"), oldLen)))
	st.heap[dom.name] = tr.heapStore(tr.heapOf(st, dom), []Term{m, k}, "false")
}

// mapLen reads len(m) and adds the basic cardinality facts.
func (a *Act) mapLen(st *State, mt *types.Map, m Term) Term {
	tr := a.tr
	_, _, ln := tr.mapComps(mt)
	l := Ite(Eq(m, "0"), "0", tr.read(tr.heapOf(st, ln), m))
	l = tr.define("maplen", "Int", l)
	tr.assume(Implies(st.reach, app(">=", l, "0")), "map length non-negative")
	a.tr.cardLemma(st, mt, m, l)
	return l
}

type rangeInfo struct {
	mt      *types.Map
	m       Term
	visited Term // name of visited-set function symbol? we use fresh per Next
	isStr   bool
	x       Term
}

func (a *Act) rangeInit(st *State, in *ssa.Range) {
	a.vals[in] = "0"
	a.checkMapAccess(st, in.X, false, in.Pos())
}

// next models one step of a map (or string) iteration. Map iteration visits an
// arbitrary key of the domain; distinctness of visited keys is not tracked here.
func (a *Act) next(st *State, in *ssa.Next) {
	tr := a.tr
	rng := in.Iter.(*ssa.Range)
	ok := tr.freshConst(a.prefix+in.Name()+"_ok", "Bool")
	if in.IsString {
		k := tr.freshConst("stridx", "Int")
		r := tr.freshConst("rune", "Int")
		tr.assume(Implies(And(st.reach, ok), And(app("<=", "0", k), app("<", k, app("str.len", a.val(rng.X))))), "string range index in bounds")
		a.tups[in] = []Term{ok, k, r}
		return
	}
	mt := rng.X.Type().Underlying().(*types.Map)
	m := a.val(rng.X)
	dom, val, _ := tr.mapComps(mt)
	ks := a.sortOf(mt.Key())
	k := tr.freshConst(a.prefix+in.Name()+"_k", ks)
	inDom := func(x Term) Term { return And(Not(Eq(m, "0")), tr.read(tr.heapOf(st, dom), m, x)) }
	tr.assume(Implies(And(st.reach, ok), inDom(k)), "range key is in the map's domain")
	// ranging over an empty/nil map yields nothing
	ml := a.mapLen(st, mt, m)
	tr.assume(Implies(And(st.reach, ok), app(">", ml, "0")), "non-empty map when range yields")
	// visited-set ghost: keys already yielded by this range loop
	li := a.loops[in.Block()]
	if li != nil && li.visName != "" {
		vis := li.visName
		li.visBack = func(x Term) Term { return Or(app(vis, x), Eq(x, k)) }
		if li.visCountHead != "" {
			// when the range ends, the number of keys yielded is the size of the map
			tr.assume(Implies(And(st.reach, Not(ok)), Eq(li.visCountHead, ml)), "range yields exactly len(m) keys")
			tr.assume(Implies(st.reach, And(app(">=", li.visCountHead, "0"), app("<=", li.visCountHead, ml))), "keys yielded so far")
			tr.assume(Implies(And(st.reach, ok), app("<", li.visCountHead, ml)), "a key is yielded only while some remain")
		}
		tr.assume(Implies(And(st.reach, ok), Not(app(vis, k))), "range yields each key once")
		tr.fresh++
		bv := fmt.Sprintf("q_rk_%d", tr.fresh)
		tr.boundVars = append(tr.boundVars, bv)
		all := fmt.Sprintf("(forall ((%s %s)) %s)", bv, ks, Implies(inDom(bv), app(vis, bv)))
		tr.boundVars = tr.boundVars[:len(tr.boundVars)-1]
		tr.assume(Implies(And(st.reach, Not(ok)), all), "range ends when every key has been yielded")
		// visited keys are in the domain
		tr.fresh++
		bv2 := fmt.Sprintf("q_rk_%d", tr.fresh)
		tr.boundVars = append(tr.boundVars, bv2)
		sub := fmt.Sprintf("(forall ((%s %s)) %s)", bv2, ks, Implies(app(vis, bv2), inDom(bv2)))
		tr.boundVars = tr.boundVars[:len(tr.boundVars)-1]
		tr.assume(Implies(st.reach, sub), "yielded keys belong to the map's domain")
	}
	v := tr.define(a.prefix+in.Name()+"_v", a.sortOf(mt.Elem()), tr.read(tr.heapOf(st, val), m, k))
	a.tups[in] = []Term{ok, k, v}
	a.assumeWF(st, mt.Elem(), v, 1)
	a.tr.eng.noteRange(a, st, in, m, k, ok)
}

func (a *Act) mayPanicExplicit(st *State, in *ssa.Panic) {
	x := a.val(in.X)
	a.mayPanic(st, "explicit", in.Pos(), "false", x)
}

// knownNonNil: pointer values that are syntactically non-nil.
func knownNonNil(v ssa.Value) bool {
	switch v := v.(type) {
	case *ssa.Alloc, *ssa.Global, *ssa.FieldAddr, *ssa.IndexAddr, *ssa.FreeVar:
		return true
	case *ssa.Const:
		return false
	default:
		_ = v
	}
	return false
}

// closureLocalOnly: the closure value is only called or deferred by the function that creates it.
func closureLocalOnly(mc *ssa.MakeClosure) bool {
	refs := mc.Referrers()
	if refs == nil {
		return false
	}
	for _, r := range *refs {
		switch r := r.(type) {
		case *ssa.Defer:
			if r.Call.Value != ssa.Value(mc) {
				return false
			}
		case *ssa.Call:
			if r.Call.Value != ssa.Value(mc) {
				return false
			}
		case *ssa.DebugRef:
		default:
			return false
		}
	}
	return true
}

// occurrenceOf: 1-based index of the source line among the lines of the function with the same text.
func (a *Act) occurrenceOf(file string, line int, text string) int {
	fn := a.fn
	first, last := 1<<30, 0
	for _, b := range fn.Blocks {
		for _, in := range b.Instrs {
			if in.Pos().IsValid() {
				p := a.tr.eng.fset.Position(in.Pos())
				if p.Filename == file {
					if p.Line < first {
						first = p.Line
					}
					if p.Line > last {
						last = p.Line
					}
				}
			}
		}
	}
	n := 0
	for l := first; l <= last && l <= line; l++ {
		if normSrc(strings.TrimSpace(a.tr.eng.sourceLine(file, l))) == text {
			n++
		}
	}
	return n
}

// cardLemma: finite-map cardinality lemma, instantiated for every pair of maps whose lengths are taken
// in the same heap version.
func (tr *Tr) cardLemma(st *State, mt *types.Map, m, l Term) {
	dom, _, _ := tr.mapComps(mt)
	hd := tr.heapOf(st, dom)
	for _, p := range tr.mapLens {
		if p.dom == hd && p.m == m {
			return
		}
	}
	ks := tr.eng.sorts.sortOf(mt.Key())
	for _, p := range tr.mapLens {
		if p.dom != hd || p.m == m {
			continue
		}
		tr.fresh++
		bv := fmt.Sprintf("q_card_%d", tr.fresh)
		tr.boundVars = append(tr.boundVars, bv)
		inA := And(Not(Eq(m, "0")), tr.read(hd, m, bv))
		inB := And(Not(Eq(p.m, "0")), tr.read(hd, p.m, bv))
		sameDom := fmt.Sprintf("(forall ((%s %s)) (= %s %s))", bv, ks, inA, inB)
		subAB := fmt.Sprintf("(forall ((%s %s)) (=> %s %s))", bv, ks, inA, inB)
		subBA := fmt.Sprintf("(forall ((%s %s)) (=> %s %s))", bv, ks, inB, inA)
		tr.boundVars = tr.boundVars[:len(tr.boundVars)-1]
		tr.assume(Implies(sameDom, Eq(l, p.l)), "finite maps: equal domains have equal size")
		tr.assume(Implies(And(Eq(l, p.l), subAB), sameDom), "finite maps: a subset of equal size is the whole set")
		tr.assume(Implies(And(Eq(l, p.l), subBA), sameDom), "finite maps: a subset of equal size is the whole set")
	}
	tr.mapLens = append(tr.mapLens, mapLenRec{m: m, l: l, dom: hd})
}

// rootedAtAlloc: the address is (a field or element of) a variable allocated by this function.
func rootedAtAlloc(v ssa.Value) bool {
	for {
		switch x := v.(type) {
		case *ssa.Alloc:
			return true
		case *ssa.FieldAddr:
			v = x.X
		case *ssa.IndexAddr:
			if _, ok := x.X.Type().Underlying().(*types.Pointer); !ok {
				return false // element of a slice: not this function's variable
			}
			v = x.X
		default:
			return false
		}
	}
}
