package main

// Go types -> SMT sorts; the Val datatype for interface values.

import (
	"fmt"
	"go/types"
	"sort"
	"strings"
)

const modulePath = "github.com/jig/lisp"

type structInfo struct {
	sort   string
	ctor   string
	st     *types.Struct
	fields []string // selector names
	fsorts []string
	gotype types.Type
}

type ctorInfo struct {
	key    string
	ctor   string
	sel    string
	sort   string
	gotype types.Type
}

type Sorts struct {
	structs    map[string]*structInfo
	structOrd  []string
	ctors      map[string]*ctorInfo
	ctorOrd    []string
	ifaces     map[string]*types.Interface // predicate name -> interface
	ifaceOrd   []string
	otherCodes map[string]int // foreign dynamic type names -> code
	inProgress map[string]bool
}

func newSorts() *Sorts {
	return &Sorts{
		structs: map[string]*structInfo{}, ctors: map[string]*ctorInfo{},
		ifaces: map[string]*types.Interface{}, otherCodes: map[string]int{},
		inProgress: map[string]bool{},
	}
}

func qualifier(p *types.Package) string {
	if p == nil {
		return ""
	}
	path := p.Path()
	if i := strings.LastIndex(path, "/"); i >= 0 {
		return path[i+1:]
	}
	return path
}

func typeStr(t types.Type) string { return types.TypeString(t, qualifier) }
func typeKey(t types.Type) string { return mangle(typeStr(t)) }

func inModule(t types.Type) bool {
	if n, ok := t.(*types.Named); ok {
		if n.Obj().Pkg() == nil {
			return false
		}
		return strings.HasPrefix(n.Obj().Pkg().Path(), modulePath)
	}
	return true // unnamed
}

// pseudo types of the specification language (no Go counterpart)
var (
	tWorld   = types.NewNamed(types.NewTypeName(0, nil, "World", nil), types.NewStruct(nil, nil), nil)
	tOutcome = types.NewNamed(types.NewTypeName(0, nil, "Outcome", nil), types.NewStruct(nil, nil), nil)
)

// sortOf maps a Go type to an SMT sort name.
func (s *Sorts) sortOf(t types.Type) string {
	if t == types.Type(tWorld) {
		return "World"
	}
	if t == types.Type(tOutcome) {
		return "Outcome"
	}
	switch u := t.Underlying().(type) {
	case *types.Basic:
		switch {
		case u.Info()&types.IsBoolean != 0:
			return "Bool"
		case u.Info()&types.IsString != 0:
			return "String"
		case u.Kind() == types.UntypedNil:
			return "Val"
		default:
			return "Int" // all numeric kinds incl. float (opaque), uintptr, unsafe.Pointer
		}
	case *types.Pointer, *types.Map, *types.Chan, *types.Signature:
		return "Int"
	case *types.Slice:
		return "Slice"
	case *types.Interface:
		return "Val"
	case *types.Array:
		return "Int" // only handled behind pointers: the array id
	case *types.Struct:
		if u.NumFields() == 0 {
			return "Int"
		}
		if !inModule(t) {
			return "Int" // opaque foreign struct
		}
		return s.structSort(t, u)
	case *types.Tuple:
		return "Int"
	}
	return "Int"
}

func (s *Sorts) structSort(t types.Type, u *types.Struct) string {
	key := "S_" + typeKey(t)
	if _, ok := s.structs[key]; ok {
		return key
	}
	if s.inProgress[key] {
		return key
	}
	s.inProgress[key] = true
	si := &structInfo{sort: key, ctor: "mk_" + key, st: u, gotype: t}
	for i := 0; i < u.NumFields(); i++ {
		f := u.Field(i)
		si.fields = append(si.fields, key+"__"+mangle(f.Name()))
		si.fsorts = append(si.fsorts, s.sortOf(f.Type()))
	}
	s.structs[key] = si
	s.structOrd = append(s.structOrd, key)
	delete(s.inProgress, key)
	return key
}

func (s *Sorts) structOf(t types.Type) *structInfo {
	k := s.sortOf(t)
	return s.structs[k]
}

// valCtor registers (if necessary) the Val constructor for concrete type t.
func (s *Sorts) valCtor(t types.Type) *ctorInfo {
	key := typeKey(t)
	if c, ok := s.ctors[key]; ok {
		return c
	}
	c := &ctorInfo{key: key, ctor: "V_" + key, sel: "u_" + key, sort: s.sortOf(t), gotype: t}
	s.ctors[key] = c
	s.ctorOrd = append(s.ctorOrd, key)
	return c
}

func isInterface(t types.Type) bool {
	_, ok := t.Underlying().(*types.Interface)
	return ok
}

// mkVal wraps a term of concrete type t as a Val.
func (s *Sorts) mkVal(t types.Type, x Term) Term {
	if isInterface(t) {
		return x
	}
	if b, ok := t.Underlying().(*types.Basic); ok && b.Kind() == types.UntypedNil {
		return "VNil"
	}
	c := s.valCtor(t)
	return app(c.ctor, x)
}

func (s *Sorts) isCtor(t types.Type, v Term) Term {
	c := s.valCtor(t)
	return fmt.Sprintf("((_ is %s) %s)", c.ctor, v)
}

func (s *Sorts) unVal(t types.Type, v Term) Term {
	c := s.valCtor(t)
	return app(c.sel, v)
}

// implPred returns the name of the predicate "dynamic type of v implements iface".
func (s *Sorts) implPred(iface types.Type) string {
	name := "impl_" + typeKey(iface)
	if _, ok := s.ifaces[name]; !ok {
		s.ifaces[name] = iface.Underlying().(*types.Interface)
		s.ifaceOrd = append(s.ifaceOrd, name)
	}
	return name
}

func (s *Sorts) otherCode(name string) int {
	if c, ok := s.otherCodes[name]; ok {
		return c
	}
	c := len(s.otherCodes) + 1
	s.otherCodes[name] = c
	return c
}

// zero value of type t.
func (s *Sorts) zero(t types.Type) Term {
	switch s.sortOf(t) {
	case "Bool":
		return "false"
	case "Int":
		return "0"
	case "String":
		return `""`
	case "Slice":
		return "nilSlice"
	case "Val":
		return "VNil"
	case "World":
		return "world0"
	case "Outcome":
		return "(mkOut VNil VNil world0)"
	}
	si := s.structOf(t)
	if si == nil {
		return "0"
	}
	args := make([]Term, len(si.fields))
	for i := range si.fields {
		args[i] = s.zero(si.st.Field(i).Type())
	}
	return app(si.ctor, args...)
}

// declarations emits the datatype declarations for everything registered so far.
func (s *Sorts) declarations() string {
	var b strings.Builder
	b.WriteString("(declare-datatypes ((Slice 0)) (((mkSlice (s_arr Int) (s_off Int) (s_len Int) (s_cap Int)))))\n")
	b.WriteString("(define-fun nilSlice () Slice (mkSlice 0 0 0 0))\n")
	// one mutually recursive block: Val + all structs
	names := []string{"(Val 0)"}
	for _, k := range s.structOrd {
		names = append(names, "("+k+" 0)")
	}
	var defs []string
	var vd strings.Builder
	vd.WriteString("((VNil) (VOther (oth_ty Int) (oth_id Int))")
	for _, k := range s.ctorOrd {
		c := s.ctors[k]
		fmt.Fprintf(&vd, " (%s (%s %s))", c.ctor, c.sel, c.sort)
	}
	vd.WriteString(")")
	defs = append(defs, vd.String())
	for _, k := range s.structOrd {
		si := s.structs[k]
		var sd strings.Builder
		fmt.Fprintf(&sd, "((%s", si.ctor)
		for i, f := range si.fields {
			fmt.Fprintf(&sd, " (%s %s)", f, si.fsorts[i])
		}
		sd.WriteString("))")
		defs = append(defs, sd.String())
	}
	fmt.Fprintf(&b, "(declare-datatypes (%s) (\n  %s))\n", strings.Join(names, " "), strings.Join(defs, "\n  "))
	b.WriteString("(declare-sort World 0)\n(declare-const world0 World)\n(declare-datatypes ((Outcome 0)) (((mkOut (outV Val) (outE Val) (outW World)))))\n")
	// interface implementation predicates
	for _, name := range s.ifaceOrd {
		iface := s.ifaces[name]
		fmt.Fprintf(&b, "(declare-fun o%s (Int) Bool)\n", name)
		var alts []Term
		for _, k := range s.ctorOrd {
			c := s.ctors[k]
			if types.Implements(c.gotype, iface) {
				alts = append(alts, fmt.Sprintf("((_ is %s) v)", c.ctor))
			}
		}
		alts = append(alts, fmt.Sprintf("(and ((_ is VOther) v) (o%s (oth_ty v)))", name))
		fmt.Fprintf(&b, "(define-fun %s ((v Val)) Bool %s)\n", name, Or(alts...))
	}
	// facts about known foreign dynamic types
	codes := make([]string, 0, len(s.otherCodes))
	for k := range s.otherCodes {
		codes = append(codes, k)
	}
	sort.Strings(codes)
	errT := types.Universe.Lookup("error").Type().Underlying().(*types.Interface)
	for _, k := range codes {
		if k != "goerror" && k != "runtime.Error" {
			continue
		}
		for _, name := range s.ifaceOrd {
			if types.Implements(errT, s.ifaces[name]) {
				fmt.Fprintf(&b, "(assert (o%s %d))\n", name, s.otherCodes[k])
			} else {
				fmt.Fprintf(&b, "(assert (not (o%s %d)))\n", name, s.otherCodes[k])
			}
		}
	}
	// dynamic type identity, type names, comparability
	uncs := []Term{}
	dynT := Term("(ite ((_ is VNil) v) 0 (+ 1000 (oth_ty v)))")
	nameT := Term(`"?"`)
	for i := len(s.ctorOrd) - 1; i >= 0; i-- {
		c := s.ctors[s.ctorOrd[i]]
		dynT = fmt.Sprintf("(ite ((_ is %s) v) %d %s)", c.ctor, i+1, dynT)
		tn := ""
		if n, ok := c.gotype.(*types.Named); ok {
			tn = n.Obj().Name()
		} else if bt, ok := c.gotype.(*types.Basic); ok {
			tn = bt.Name()
		}
		nameT = fmt.Sprintf("(ite (= id %d) %s %s)", i+1, StrLit(tn), nameT)
		if !types.Comparable(c.gotype) {
			uncs = append(uncs, fmt.Sprintf("((_ is %s) v)", c.ctor))
		}
	}
	fmt.Fprintf(&b, "(define-fun dynTypeId ((v Val)) Int %s)\n", dynT)
	fmt.Fprintf(&b, "(define-fun typeNameOf ((id Int)) String %s)\n", nameT)
	fmt.Fprintf(&b, "(define-fun uncmpV ((v Val)) Bool %s)\n", Or(uncs...))
	// idsOK(v, b): every container directly inside v is well-formed and has id <= b
	var conds []Term
	for _, k := range s.ctorOrd {
		c := s.ctors[k]
		inner := s.idsOKTerm(c.gotype, app(c.sel, "v"), "b", 0)
		if inner != "true" {
			conds = append(conds, fmt.Sprintf("(=> ((_ is %s) v) %s)", c.ctor, inner))
		}
	}
	conds = append(conds, "(=> ((_ is VOther) v) (>= (oth_ty v) 1))")
	fmt.Fprintf(&b, "(define-fun idsOK ((v Val) (b Int)) Bool %s)\n", And(conds...))
	// valSmall(v): size hints used only when asking for small models to replay
	b.WriteString("(define-fun sliceSmall ((s Slice)) Bool (and (<= (s_len s) 3) (<= (s_cap s) 4) (<= (s_off s) 2) (<= (s_arr s) 60)))\n")
	var sm []Term
	for _, k := range s.ctorOrd {
		c := s.ctors[k]
		inner := s.smallTerm(c.gotype, app(c.sel, "v"), 0)
		if inner != "true" {
			sm = append(sm, fmt.Sprintf("(=> ((_ is %s) v) %s)", c.ctor, inner))
		}
	}
	fmt.Fprintf(&b, "(define-fun valSmall ((v Val)) Bool %s)\n", And(sm...))
	return b.String()
}

// idsOKTerm: containers reachable in x without going through the heap are well-formed and <= b.
func (s *Sorts) idsOKTerm(t types.Type, x Term, bound Term, depth int) Term {
	switch u := t.Underlying().(type) {
	case *types.Slice:
		return And(app("<=", app("s_arr", x), bound), app("<=", "0", app("s_arr", x)), app("<=", "0", app("s_off", x)), app("<=", "0", app("s_len", x)),
			app("<=", app("s_len", x), app("s_cap", x)), Implies(Eq(app("s_arr", x), "0"), Eq(app("s_cap", x), "0")))
	case *types.Map, *types.Pointer, *types.Chan:
		return And(app("<=", x, bound), app("<=", "0", x))
	case *types.Signature:
		return app("<=", x, bound)
	case *types.Struct:
		si := s.structOf(t)
		if si == nil || depth > 2 {
			return "true"
		}
		var cs []Term
		for i := 0; i < u.NumFields(); i++ {
			ft := u.Field(i).Type()
			if isInterface(ft) {
				continue // nested interface values: constrained when projected
			}
			cs = append(cs, s.idsOKTerm(ft, app(si.fields[i], x), bound, depth+1))
		}
		return And(cs...)
	}
	return "true"
}

func (s *Sorts) smallTerm(t types.Type, x Term, depth int) Term {
	switch u := t.Underlying().(type) {
	case *types.Slice:
		return app("sliceSmall", x)
	case *types.Basic:
		if u.Info()&types.IsInteger != 0 {
			return And(app("<=", "(- 3)", x), app("<=", x, "6"))
		}
		if u.Info()&types.IsString != 0 {
			return app("<=", app("str.len", x), "4")
		}
	case *types.Map, *types.Pointer:
		return app("<=", x, "60")
	case *types.Struct:
		si := s.structOf(t)
		if si == nil || depth > 1 {
			return "true"
		}
		var cs []Term
		for i := 0; i < u.NumFields(); i++ {
			ft := u.Field(i).Type()
			if isInterface(ft) {
				continue
			}
			cs = append(cs, s.smallTerm(ft, app(si.fields[i], x), depth+1))
		}
		return And(cs...)
	}
	return "true"
}
