package main

// Control flow: block ordering, merging, loop cutting, returns, panics/recover.

import (
	"go/token"
	"fmt"
	"go/ast"
	"strings"
	"go/types"

	"golang.org/x/tools/go/ssa"
)

func (tr *Tr) newAct(fn *ssa.Function, parent *Act) *Act {
	a := &Act{tr: tr, fn: fn, parent: parent,
		vals: map[ssa.Value]Term{}, tups: map[ssa.Value][]Term{}, lvs: map[ssa.Value]*LV{},
		closures: map[ssa.Value]*Closure{}, edges: map[[2]int]*State{}, loops: map[*ssa.BasicBlock]*loopInfo{},
		phiOverride: map[*ssa.Phi]Term{}}
	if parent != nil {
		a.depth = parent.depth + 1
	}
	tr.fresh++
	a.prefix = fmt.Sprintf("a%d_", tr.fresh)
	if !tr.noContracts {
		a.contract = tr.eng.contracts.forFunc(fn)
	}
	return a
}

// rpo returns the blocks reachable from entry in reverse post-order, ignoring back edges.
func rpo(fn *ssa.Function) []*ssa.BasicBlock {
	seen := map[*ssa.BasicBlock]bool{}
	var post []*ssa.BasicBlock
	var dfs func(b *ssa.BasicBlock)
	dfs = func(b *ssa.BasicBlock) {
		seen[b] = true
		for _, s := range b.Succs {
			if !seen[s] {
				dfs(s)
			}
		}
		post = append(post, b)
	}
	dfs(fn.Blocks[0])
	for i, j := 0, len(post)-1; i < j; i, j = i+1, j-1 {
		post[i], post[j] = post[j], post[i]
	}
	return post
}

func isBackEdge(p, b *ssa.BasicBlock) bool { return b.Dominates(p) }

func (a *Act) findLoops() {
	ord := 0
	// headers in source order (block index order approximates source order)
	for _, b := range a.fn.Blocks {
		for _, p := range b.Preds {
			if isBackEdge(p, b) {
				li := a.loops[b]
				if li == nil {
					ord++
					li = &loopInfo{header: b, blocks: map[*ssa.BasicBlock]bool{b: true}, ord: ord}
					a.loops[b] = li
				}
				// natural loop of back edge p->b
				var stack []*ssa.BasicBlock
				if !li.blocks[p] {
					li.blocks[p] = true
					stack = append(stack, p)
				}
				for len(stack) > 0 {
					x := stack[len(stack)-1]
					stack = stack[:len(stack)-1]
					for _, q := range x.Preds {
						if !li.blocks[q] {
							li.blocks[q] = true
							stack = append(stack, q)
						}
					}
				}
			}
		}
	}
	// order loops by source position of header's first positioned instruction
	type hp struct {
		li  *loopInfo
		pos int
	}
	var hs []hp
	for _, li := range a.loops {
		pos := 1 << 30
		for _, b := range sortedBlocks(li.blocks) {
			for _, in := range b.Instrs {
				if in.Pos().IsValid() && int(in.Pos()) < pos {
					pos = int(in.Pos())
				}
			}
		}
		hs = append(hs, hp{li, pos})
	}
	for i := range hs {
		for j := i + 1; j < len(hs); j++ {
			if hs[j].pos < hs[i].pos {
				hs[i], hs[j] = hs[j], hs[i]
			}
		}
	}
	for i, h := range hs {
		h.li.ord = i + 1
	}
}

// mergeStates merges edge states; conds are the edge reach terms.
func (tr *Tr) mergeStates(sts []*State) *State {
	if len(sts) == 1 {
		return sts[0].copy()
	}
	out := &State{heap: map[string]*HeapV{}, defers: map[*ssa.Defer]Term{}, owned: map[string]ownedCell{}}
	out.prov = &prov{kind: "join", preds: append([]*State{}, sts...)}
	out.esc = map[string]escRec{}
	for _, s := range sts {
		for k, v := range s.esc {
			out.esc[k] = v
		}
	}
	for k, v := range sts[0].owned {
		same := true
		for _, s := range sts[1:] {
			if w, ok := s.owned[k]; !ok || w != v {
				same = false
			}
		}
		if same {
			out.owned[k] = v
		}
	}
	reaches := make([]Term, len(sts))
	for i, s := range sts {
		reaches[i] = s.reach
	}
	out.reach = tr.define("reach", "Bool", Or(reaches...))
	// alloc
	al := sts[len(sts)-1].alloc
	for i := len(sts) - 2; i >= 0; i-- {
		al = Ite(sts[i].reach, sts[i].alloc, al)
	}
	out.alloc = tr.define("alloc", "Int", al)
	// heap
	names := map[string]bool{}
	for _, s := range sts {
		for k := range s.heap {
			names[k] = true
		}
	}
	for _, k := range sortedKeys(names) {
		c := tr.comps[k]
		var h *HeapV
		for i := len(sts) - 1; i >= 0; i-- {
			hv, ok := sts[i].heap[k]
			if !ok {
				hv = tr.heapOf(sts[i], c)
			}
			if h == nil {
				h = hv
			} else {
				h = tr.heapIte(sts[i].reach, hv, h)
			}
		}
		out.heap[k] = h
	}
	// defers
	dnames := map[*ssa.Defer]bool{}
	for _, s := range sts {
		for d := range s.defers {
			dnames[d] = true
		}
	}
	for d := range dnames {
		var t Term = "false"
		for i := len(sts) - 1; i >= 0; i-- {
			v, ok := sts[i].defers[d]
			if !ok {
				v = "false"
			}
			if i == len(sts)-1 {
				t = v
			} else {
				t = Ite(sts[i].reach, v, t)
			}
		}
		out.defers[d] = tr.define("dfl", "Bool", t)
	}
	return out
}

// run executes the body of a.fn from entry state st with the given argument terms.
// It returns the merged exit state and result terms (nil state if no return is reachable).
func (a *Act) run(st *State, args []Term) (*State, []Term) {
	tr := a.tr
	fn := a.fn
	if len(fn.Blocks) == 0 {
		tr.unsupp("%s: no body", fnName(fn))
		return st, nil
	}
	a.args = args
	for i, p := range fn.Params {
		if i < len(args) {
			a.vals[p] = args[i]
		}
	}
	a.entryState = st.copy()
	a.recovers = fn.Recover != nil && tr.eng.deferRecovers(fn)
	a.mergeRunDefers = countRunDefers(fn) > 1
	a.findLoops()
	a.prepareAllocs()
	order := rpo(fn)
	a.edges[[2]int{-1, 0}] = st
	for _, b := range order {
		in := a.blockIn(b)
		if in == nil {
			continue
		}
		cur := in
		for i, instr := range b.Instrs {
			if _, ok := instr.(*ssa.RunDefers); ok && a.mergeRunDefers {
				a.pendingExits = append(a.pendingExits, pendingExit{st: cur, b: b, idx: i})
				break
			}
			a.instr(cur, b, instr)
		}
	}
	if len(a.pendingExits) > 0 {
		// run the deferred calls once on the merged exit state, then finish each exit
		sts := make([]*State, len(a.pendingExits))
		for i, pe := range a.pendingExits {
			sts[i] = pe.st
		}
		merged := tr.mergeStates(sts)
		a.runDefers(merged, nil)
		a.mergedExit = merged
		for _, pe := range a.pendingExits {
			cur := merged.copy()
			// this exit's share of the merged state: its own path condition, restricted to
			// paths on which the deferred calls returned
			cur.reach = tr.define("reach_exit", "Bool", And(pe.st.reach, merged.reach))
			for _, instr := range pe.b.Instrs[pe.idx+1:] {
				a.instr(cur, pe.b, instr)
			}
		}
		a.pendingExits = nil
	}
	// panic landing
	if a.recovers && len(a.panics) > 0 {
		a.landPanics()
	}
	if len(a.rets) == 0 {
		return nil, nil
	}
	sts := make([]*State, len(a.rets))
	for i, r := range a.rets {
		sts[i] = r.st
	}
	out := tr.mergeStates(sts)
	nres := fn.Signature.Results().Len()
	results := make([]Term, nres)
	for k := 0; k < nres; k++ {
		t := a.rets[len(a.rets)-1].results[k]
		for i := len(a.rets) - 2; i >= 0; i-- {
			t = Ite(a.rets[i].st.reach, a.rets[i].results[k], t)
		}
		results[k] = tr.define(a.prefix+"res", a.sortOf(fn.Signature.Results().At(k).Type()), t)
	}
	return out, results
}

// blockIn computes the in-state of block b and defines its phis.
func (a *Act) blockIn(b *ssa.BasicBlock) *State {
	tr := a.tr
	var sts []*State
	var predIdx []int
	if b.Index == 0 {
		sts = append(sts, a.edges[[2]int{-1, 0}])
		predIdx = append(predIdx, -1)
	}
	for i, p := range b.Preds {
		if isBackEdge(p, b) {
			continue
		}
		if s, ok := a.edges[[2]int{p.Index, b.Index}]; ok {
			sts = append(sts, s)
			predIdx = append(predIdx, i)
		}
	}
	if len(sts) == 0 {
		return nil
	}
	st := tr.mergeStates(sts)
	li := a.loops[b]
	// phis (entry view)
	phiEntry := map[*ssa.Phi]Term{}
	for _, instr := range b.Instrs {
		phi, ok := instr.(*ssa.Phi)
		if !ok {
			break
		}
		var t Term
		first := true
		for k := len(sts) - 1; k >= 0; k-- {
			pi := predIdx[k]
			if pi < 0 {
				continue
			}
			ev := a.val(phi.Edges[pi])
			if first {
				t = ev
				first = false
			} else {
				t = Ite(sts[k].reach, ev, t)
			}
		}
		phiEntry[phi] = t
	}
	if li == nil {
		for phi, t := range phiEntry {
			a.setVal(phi, t)
		}
		return st
	}
	// ---- loop header ----
	li.preSt = st.copy()
	li.phiEntry = phiEntry
	for _, instr := range b.Instrs {
		if nx, ok := instr.(*ssa.Next); ok && !nx.IsString && li.visName == "" {
			mt := nx.Iter.(*ssa.Range).X.Type().Underlying().(*types.Map)
			tr.fresh++
			li.visName = fmt.Sprintf("vis_%d", tr.fresh)
			tr.declare(fmt.Sprintf("(declare-fun %s (%s) Bool)", li.visName, a.sortOf(mt.Key())))
			name := li.visName
			li.visHead = func(x Term) Term { return app(name, x) }
			li.visCountHead = tr.freshConst("viscount", "Int")
		}
	}
	a.setupLoopInvariants(li, phiEntry)
	// inv-init
	for _, inv := range li.invs {
		for phi, t := range phiEntry {
			a.phiOverride[phi] = t
		}
		a.visMode = "init"
		g := inv.eval(a, st)
		a.visMode = ""
		for phi := range phiEntry {
			delete(a.phiOverride, phi)
		}
		kind := "inv-init"
		o := a.obligeAt(st, kind, li, inv, g)
		if o != nil {
			o.Cand = inv.cand
		}
	}
	// a loop under a tailrec relation starts from the function's own arguments: what the relation is
	// about at the first arrival (form, scope, world ...) is what the caller passed, unchanged by
	// anything the function did before the loop
	if a.contract != nil && a.parent == nil {
		if ts := a.contract.tailrec[li.ord]; ts != nil && ts.rel != nil && tr.wantClause(ts.rel) {
			if call, ok := ts.rel.expr.(*ast.CallExpr); ok {
				for phi, t := range phiEntry {
					a.phiOverride[phi] = t
				}
				var errs []string
				pkg := tr.eng.pkgOf(a.fn)
				here := &specEnv{a: a, tr: tr, pkg: pkg, st: st, old: a.entryState, vars: map[string]specVal{}, li: li, errs: &errs}
				entry := &specEnv{a: nil, tr: tr, pkg: pkg, st: a.entryState, old: a.entryState, errs: &errs,
					vars: a.bindContract(a.contract, a.entryState, a.args, nil, a.fn.Signature, true)}
				var eqs []Term
				for _, x := range call.Args {
					if id, ok := x.(*ast.Ident); ok && id.Name == "OUT" {
						continue
					}
					eqs = append(eqs, Eq(here.eval(x).t, entry.eval(x).t))
				}
				for phi := range phiEntry {
					delete(a.phiOverride, phi)
				}
				for _, m := range errs {
					tr.specErr(fmt.Sprintf("%s (tailrec entry): %s", fnName(a.fn), m))
				}
				fname := fnName(a.fn)
				loc := ""
				for _, in := range li.header.Instrs {
					if in.Pos().IsValid() {
						loc, _ = a.srcLine(in.Pos())
						break
					}
				}
				base := fmt.Sprintf("%s/step/entry@loop%d", fname, li.ord)
				tr.oblCount[base]++
				tr.obls = append(tr.obls, &Obligation{Name: fmt.Sprintf("%s#%d", base, tr.oblCount[base]), Kind: "step", Fn: fname, Pos: loc,
					Src: "the loop starts from the arguments as passed: " + ts.rel.text, Guard: st.reach, Goal: And(eqs...)})
			}
		}
	}
	// havoc
	hs := st.copy()
	hs.reach = tr.define("reach_loop", "Bool", st.reach)
	for _, instr := range b.Instrs {
		phi, ok := instr.(*ssa.Phi)
		if !ok {
			break
		}
		c := tr.freshConst(a.prefix+phi.Name()+"_"+phi.Comment, a.sortOf(phi.Type()))
		a.vals[phi] = c
		if et, ok := phiEntry[phi]; ok && et != "" {
			tr.firstIterHints = append(tr.firstIterHints, Implies(hs.reach, Eq(c, et)))
		}
		a.assumeWF(hs, phi.Type(), c, 1)
	}
	a.prescanEscapes(hs, li)
	mods, all := a.loopMods(li)
	preHavoc := hs.copy()
	// cells of this activation that the loop body assigns are not kept across the havoc
	for _, name := range a.loopStoredAllocs(li) {
		delete(preHavoc.owned, a.prefix+name)
	}
	hs.prov = &prov{kind: "havoc", prev: preHavoc, all: all, mods: mods, hint: "loop",
		keepValue: func(key []Term) Term { return tr.preExisting(key[0]) }}
	for name := range hs.heap {
		c := tr.comps[name]
		if c == nil {
			continue
		}
		if c.local && !mods[name] {
			continue
		}
		if !all && !mods[name] {
			continue
		}
		if strings.HasPrefix(name, "ghost:lock") && !mods[name] {
			continue
		}
		delete(hs.heap, name)
		nh := tr.heapOf(hs, c)
		if c.local {
			tr.firstIterHints = append(tr.firstIterHints, Implies(hs.reach, Eq(tr.read(nh), tr.read(tr.heapOf(preHavoc, c)))))
		}
	}
	na := tr.freshConst("alloc_loop", "Int")
	tr.assume(Implies(hs.reach, app(">=", na, st.alloc)), "allocation counter monotone")
	hs.alloc = na
	for d := range hs.defers {
		if li.blocks[d.Block()] {
			hs.defers[d] = tr.freshConst("dfl_loop", "Bool")
		}
	}
	li.headSt = hs
	if a.contract != nil && a.parent == nil {
		for _, dc := range a.contract.loopDecr[li.ord] {
			li.measure = append(li.measure, a.evalSpecInt(hs, dc.expr, li))
		}
	}
	if a.contract != nil && a.parent == nil {
		for _, ac := range a.contract.loopAssume[li.ord] {
			if !tr.wantClause(ac) {
				continue
			}
			tr.assume(Implies(hs.reach, a.evalSpecBool(hs, ac.expr, li)), "assumed at the head of loop: "+ac.text)
			tr.usedAssumed[fnName(a.fn)+" loop assume: "+ac.text] = true
		}
	}
	for _, inv := range li.invs {
		g := inv.eval(a, hs)
		if inv.cand != nil {
			inv.cand.Term = Implies(hs.reach, g)
		} else {
			tr.assume(Implies(hs.reach, g), "loop invariant: "+inv.text)
		}
	}
	return hs
}

// preExisting(id): container existed at root entry and is not assignable by contract.
func (tr *Tr) preExisting(id Term) Term {
	t := app("<=", id, tr.alloc0)
	for _, f := range tr.assignOK {
		t = And(t, Not(f(id)))
	}
	return t
}

func (a *Act) obligeAt(st *State, kind string, li *loopInfo, inv *loopInv, goal Term) *Obligation {
	if goal == "true" {
		return nil
	}
	fname := fnName(a.fn)
	base := fmt.Sprintf("%s/%s/loop%d/«%s»", fname, kind, li.ord, normSrc(inv.text))
	a.tr.oblCount[base]++
	name := fmt.Sprintf("%s#%d", base, a.tr.oblCount[base])
	loc := ""
	for _, in := range li.header.Instrs {
		if in.Pos().IsValid() {
			loc, _ = a.srcLine(in.Pos())
			break
		}
	}
	o := &Obligation{Name: name, Kind: kind, Fn: fname, Pos: loc, Src: inv.text, Guard: st.reach, Goal: goal}
	if inv.cand != nil {
		o.Kind = "cand-" + kind
	}
	a.tr.obls = append(a.tr.obls, o)
	return o
}

// backEdge is called when block p jumps to loop header h.
func (a *Act) backEdge(st *State, p, h *ssa.BasicBlock) {
	li := a.loops[h]
	if li == nil {
		return
	}
	pi := -1
	for i, q := range h.Preds {
		if q == p {
			pi = i
		}
	}
	for _, instr := range h.Instrs {
		phi, ok := instr.(*ssa.Phi)
		if !ok {
			break
		}
		a.phiOverride[phi] = a.val(phi.Edges[pi])
	}
	for _, inv := range li.invs {
		a.visMode = "back"
		g := inv.eval(a, st)
		a.visMode = ""
		o := a.obligeAt(st, "inv-step", li, inv, g)
		if o != nil {
			o.Cand = inv.cand
		}
	}
	if len(li.measure) > 0 {
		var after []Term
		for _, dc := range a.contract.loopDecr[li.ord] {
			after = append(after, a.evalSpecInt(st, dc.expr, li))
		}
		a.obligeNamed(st, "decreases", fmt.Sprintf("loop%d", li.ord), lexLess(after, li.measure))
	}
	for _, instr := range h.Instrs {
		phi, ok := instr.(*ssa.Phi)
		if !ok {
			break
		}
		delete(a.phiOverride, phi)
	}
	// pending defers registered inside the loop may not be carried round it
	for d, fl := range st.defers {
		if li.blocks[d.Block()] && fl != "false" {
			a.oblige(st, "defer/pending-at-backedge", d.Pos(), "true", Not(fl), nil)
		}
	}
	if a.contract != nil && a.parent == nil && a.contract.tailrec[li.ord] != nil && a.contract.tailrec[li.ord].cont != nil {
		// re-establish the overrides for the evaluation of the continuation outcome
		for _, instr := range h.Instrs {
			phi, ok := instr.(*ssa.Phi)
			if !ok {
				break
			}
			a.phiOverride[phi] = a.val(phi.Edges[pi])
		}
		outT := a.evalSpecTerm(st, a.contract.tailrec[li.ord].cont.expr, li)
		for _, instr := range h.Instrs {
			if phi, ok := instr.(*ssa.Phi); ok {
				delete(a.phiOverride, phi)
			}
		}
		a.tailrecOblige(st, li, outT, "continue")
	}
}

func (a *Act) setEdge(from, to *ssa.BasicBlock, st *State) {
	if isBackEdge(from, to) {
		a.backEdge(st, from, to)
		return
	}
	key := [2]int{from.Index, to.Index}
	if old, ok := a.edges[key]; ok {
		// both branches of an If go to the same block
		a.edges[key] = a.tr.mergeStates([]*State{old, st})
		return
	}
	a.edges[key] = st
}

// landPanics merges the panic edges, runs the deferred calls in panicking mode and
// continues in the Recover block if the panic was recovered.
func (a *Act) landPanics() {
	tr := a.tr
	sts := make([]*State, len(a.panics))
	for i, p := range a.panics {
		sts[i] = p.st
	}
	st := tr.mergeStates(sts)
	pv := a.panics[len(a.panics)-1].val
	for i := len(a.panics) - 2; i >= 0; i-- {
		pv = Ite(a.panics[i].st.reach, a.panics[i].val, pv)
	}
	pv = tr.define("panicval", "Val", pv)
	tr.assume(Implies(st.reach, Not(Eq(pv, "VNil"))), "recover() returns a non-nil value while panicking (Go >= 1.21: panic(nil) becomes *runtime.PanicNilError)")
	a.panicking = "true"
	a.panicVal = pv
	a.panics = nil
	wasRecovers := a.recovers
	a.recovers = false // panics inside deferred functions propagate
	a.runDefers(st, nil)
	a.recovers = wasRecovers
	still := a.panicking
	a.panicking = ""
	// not recovered: the panic escapes this function
	if still != "false" {
		esc := st.copy()
		esc.reach = And(st.reach, still)
		if a.parent != nil {
			a.parent.mayPanicFrom(esc, a, pv)
		} else if tr.panicMode == "obligation" {
			a.oblige(esc, "nopanic/escape", a.fn.Pos(), "true", "false", nil)
		}
	}
	st.reach = tr.define("reach_rec", "Bool", And(st.reach, Not(still)))
	// Recover block
	rb := a.fn.Recover
	cur := st
	for _, instr := range rb.Instrs {
		a.instr(cur, rb, instr)
	}
}

func (a *Act) mayPanicFrom(st *State, child *Act, pv Term) {
	for r := a; r != nil; r = r.parent {
		if r.recovers {
			r.panics = append(r.panics, panicEdge{st: st, val: pv})
			return
		}
	}
	if a.tr.panicMode == "obligation" {
		child.oblige(st, "nopanic/escape", child.fn.Pos(), "true", "false", nil)
	}
}

// prepareAllocs decides which Allocs are private (non-escaping) cells.
func (a *Act) prepareAllocs() {
	for _, b := range a.fn.Blocks {
		for _, instr := range b.Instrs {
			al, ok := instr.(*ssa.Alloc)
			if !ok {
				continue
			}
			et := al.Type().Underlying().(*types.Pointer).Elem()
			if _, isArr := et.Underlying().(*types.Array); isArr {
				continue
			}
			if !escapes(al, 0) {
				name := fmt.Sprintf("local:%s%s", a.prefix, al.Name())
				c := &Component{name: name, keySorts: nil, valSort: a.sortOf(et), local: true}
				a.tr.comps[name] = c
				a.lvs[al] = &LV{kind: lvLocal, typ: et, comp: c}
			}
		}
	}
}

func escapes(v ssa.Value, depth int) bool {
	refs := v.Referrers()
	if refs == nil {
		return true
	}
	for _, r := range *refs {
		switch r := r.(type) {
		case *ssa.Store:
			if r.Val == v {
				return true
			}
		case *ssa.UnOp:
			// load
		case *ssa.DebugRef:
		case *ssa.FieldAddr:
			if depth > 4 || escapes(r, depth+1) {
				return true
			}
		default:
			return true
		}
	}
	return false
}

func countRunDefers(fn *ssa.Function) int {
	n := 0
	for _, b := range fn.Blocks {
		for _, in := range b.Instrs {
			if _, ok := in.(*ssa.RunDefers); ok {
				n++
			}
		}
	}
	return n
}

// lexLess: tuple a is lexicographically smaller than b, the decreasing component of b being >= 0.
func lexLess(a, b []Term) Term {
	var alts []Term
	for k := range b {
		if k >= len(a) {
			break
		}
		var cs []Term
		for j := 0; j < k; j++ {
			cs = append(cs, Eq(a[j], b[j]))
		}
		cs = append(cs, app("<", a[k], b[k]), app(">=", b[k], "0"))
		alts = append(alts, And(cs...))
	}
	return Or(alts...)
}

func (a *Act) obligeNamed(st *State, kind, what string, goal Term) *Obligation {
	fname := fnName(a.fn)
	base := fmt.Sprintf("%s/%s/«%s»", fname, kind, what)
	a.tr.oblCount[base]++
	loc, _ := a.srcLine(a.curPos)
	o := &Obligation{Name: fmt.Sprintf("%s#%d", base, a.tr.oblCount[base]), Kind: kind, Fn: fname, Pos: loc, Src: what, Guard: st.reach, Goal: goal}
	a.tr.obls = append(a.tr.obls, o)
	return o
}

// prescanEscapes: a container defined before the loop and passed, inside the loop, to a call
// that may retain it has escaped for every iteration after the first; the loop head stands for
// an arbitrary iteration, so it is treated as escaped there.
func (a *Act) prescanEscapes(st *State, li *loopInfo) {
	tr := a.tr
	if !tr.frameMode {
		return
	}
	for _, b := range sortedBlocks(li.blocks) {
		for _, in := range b.Instrs {
			var c *ssa.CallCommon
			switch x := in.(type) {
			case *ssa.Call:
				c = x.Common()
			case *ssa.Defer:
				c = &x.Call
			case *ssa.Go:
				c = &x.Call
			}
			if c == nil || !a.callRetainsConservative(c) {
				continue
			}
			for _, arg := range c.Args {
				if !a.dominatesHeader(arg, li.header) {
					continue
				}
				if _, isConst := arg.(*ssa.Const); isConst {
					continue
				}
				if _, ok := a.vals[arg]; !ok {
					continue
				}
				tr.markEscaped(st, arg.Type(), a.val(arg))
			}
		}
	}
}

// callRetains: may the callee keep a reference to its arguments? (not builtins, stubs, pure
// contracts or callees that are inlined and therefore seen)
func (a *Act) callRetains(c *ssa.CallCommon) bool {
	tr := a.tr
	if _, ok := c.Value.(*ssa.Builtin); ok {
		return false
	}
	var callee *ssa.Function
	if c.IsInvoke() {
		callee = tr.eng.resolveInvoke(c)
		if callee == nil {
			key := fmt.Sprintf("(%s).%s", typeStr(c.Value.Type()), c.Method.Name())
			return tr.eng.stubFor(key) == nil
		}
	} else if f := c.StaticCallee(); f != nil {
		callee = f
	} else if cl := a.findClosure(c.Value); cl != nil {
		return false // inlined
	} else {
		return true
	}
	if tr.eng.stubFor(callee.String()) != nil {
		return false
	}
	if fc := tr.eng.contracts.forFunc(callee); fc != nil && fc.modular() && !tr.noContracts {
		return !fc.pure
	}
	inMod := callee.Pkg != nil && strings.HasPrefix(callee.Pkg.Pkg.Path(), modulePath) || callee.Parent() != nil || isInstantiation(callee)
	if !inMod {
		return false // external library calls do not retain lisp containers (TB-STUB)
	}
	// module function without contract: inlined when small (then we see what it does), else unknown
	if len(callee.Blocks) > 0 && !a.onStack(callee) && a.depth < maxInlineDepth && (len(callee.Blocks) <= 3 || (len(callee.Blocks) <= maxInlineBlocks && tr.inlineBudget >= len(callee.Blocks))) {
		return false
	}
	return true
}

// callRetainsConservative: like callRetains, but a small module callee that would be inlined
// counts as retaining too (what it does with its argument is only seen later, inside the loop).
func (a *Act) callRetainsConservative(c *ssa.CallCommon) bool {
	if a.callRetains(c) {
		return true
	}
	if _, ok := c.Value.(*ssa.Builtin); ok {
		return false
	}
	callee := c.StaticCallee()
	if callee == nil || c.IsInvoke() {
		return false
	}
	tr := a.tr
	if tr.eng.stubFor(callee.String()) != nil {
		return false
	}
	if fc := tr.eng.contracts.forFunc(callee); fc != nil && fc.pure {
		return false
	}
	inMod := callee.Pkg != nil && strings.HasPrefix(callee.Pkg.Pkg.Path(), modulePath) || callee.Parent() != nil || isInstantiation(callee)
	return inMod && callee.Parent() == nil
}

// tailrecOblige: the step relation holds between the loop-head values and outcome outT. The
// relation's own arguments are evaluated at the loop head; the relation itself reads the heap
// of the current state (values allocated during the iteration exist there; older ones are unchanged).
func (a *Act) tailrecOblige(st *State, li *loopInfo, outT Term, what string) {
	tr := a.tr
	ts := a.contract.tailrec[li.ord]
	pre := what == "return-before-loop"
	if pre {
		what = "return"
	}
	if ts == nil || ts.rel == nil || (li.headSt == nil && !pre) || !tr.wantClause(ts.rel) {
		return
	}
	call, ok := ts.rel.expr.(*ast.CallExpr)
	if !ok {
		tr.specErr(fnName(a.fn) + ": tailrec clause must be a call rel(args..., OUT)")
		return
	}
	var errs []string
	pkg := tr.eng.pkgOf(a.fn)
	headEnv := &specEnv{a: a, tr: tr, pkg: pkg, st: li.headSt, old: a.entryState, li: li, errs: &errs, vars: map[string]specVal{}}
	if pre {
		// the names of the relation's arguments are the parameters as passed
		headEnv = &specEnv{a: nil, tr: tr, pkg: pkg, st: a.entryState, old: a.entryState, errs: &errs,
			vars: a.bindContract(a.contract, a.entryState, a.args, nil, a.fn.Signature, true)}
	}
	vars := map[string]specVal{"OUT": {outT, tOutcome}}
	args := make([]ast.Expr, len(call.Args))
	for i, x := range call.Args {
		if id, ok := x.(*ast.Ident); ok && id.Name == "OUT" {
			args[i] = x
			continue
		}
		name := fmt.Sprintf("HEAD%d", i)
		vars[name] = headEnv.eval(x)
		args[i] = &ast.Ident{Name: name}
	}
	cur := st
	if what == "return" && a.mergedExit != nil {
		cur = a.mergedExit // all exits share this heap: the relation is compiled once
	}
	// a captured state (readsat) that dominates this point: the relation reads the heap as it
	// was there. Values are immutable once built (C02), and the abstract outcome functions take
	// no heap, so any heap of this iteration in which the forms exist defines the same relation.
	if a.curBlock != nil {
		for _, snap := range a.readsAt[li.ord] {
			if snap.block == a.curBlock || snap.block.Dominates(a.curBlock) {
				cur = snap.st
			}
		}
	}
	e := &specEnv{a: nil, tr: tr, pkg: pkg, st: cur, old: a.entryState, errs: &errs, vars: vars}
	relCall := &ast.CallExpr{Fun: call.Fun, Args: args}
	g := e.evalBool(relCall)
	var gt *GoalTree
	if treeish(tr, relCall, 0) {
		// (reads made while unfolding the relation add no well-formedness assumptions: the
		// compiled relation reads through bound variables and has none either)
		tr.quietReads = true
		if ts.cont != nil {
			if cc, ok := ts.cont.expr.(*ast.CallExpr); ok {
				if id, ok := cc.Fun.(*ast.Ident); ok {
					tr.tailFn = id.Name
				}
			}
		}
		gt = e.tree(relCall)
		tr.tailFn = ""
		tr.quietReads = false
	}
	for _, m := range errs {
		tr.specErr(fmt.Sprintf("%s (tailrec): %s", fnName(a.fn), m))
	}
	loc, src := a.srcLine(a.curPos)
	fname := fnName(a.fn)
	// one obligation per way of reaching this point (the incoming edges of the current block and,
	// one level up, of single-successor merge blocks): same meaning, smaller case splits
	type way struct {
		guard Term
		label string
	}
	ways := []way{{st.reach, normSrc(src)}}
	if what == "continue" && a.curBlock != nil {
		var collect func(b *ssa.BasicBlock, depth int) []way
		collect = func(b *ssa.BasicBlock, depth int) []way {
			var out []way
			for _, p := range b.Preds {
				if isBackEdge(p, b) {
					continue
				}
				es, ok := a.edges[[2]int{p.Index, b.Index}]
				if !ok {
					continue
				}
				lbl := ""
				for i := len(p.Instrs) - 1; i >= 0; i-- {
					if p.Instrs[i].Pos().IsValid() {
						_, l := a.srcLine(p.Instrs[i].Pos())
						lbl = normSrc(l)
						break
					}
				}
				if depth < 2 && len(p.Preds) > 1 && len(p.Instrs) <= 3 {
					sub := collect(p, depth+1)
					if len(sub) > 1 {
						for _, w := range sub {
							out = append(out, way{And(w.guard, es.reach), w.label})
						}
						continue
					}
				}
				out = append(out, way{es.reach, lbl})
			}
			return out
		}
		if ws := collect(a.curBlock, 0); len(ws) > 1 {
			ways = nil
			for _, w := range ws {
				ways = append(ways, way{And(st.reach, w.guard), w.label})
			}
		}
	}
	if what == "return" && gt != nil {
		// tail positions continue the loop: at a return no case of the relation that defines the
		// outcome as the evaluation of another form (a tail leaf) may be reachable
		var paths []Term
		gt.tailPaths(nil, &paths)
		if len(paths) > 0 {
			neg := make([]Term, len(paths))
			for i, p := range paths {
				neg[i] = Not(p)
			}
			base := fmt.Sprintf("%s/tco/return-in-tail-position@«%s»", fname, normSrc(src))
			tr.oblCount[base]++
			tr.obls = append(tr.obls, &Obligation{Name: fmt.Sprintf("%s#%d", base, tr.oblCount[base]), Kind: "tco", Fn: fname, Pos: loc, Src: "no return where the definition continues with a form in tail position", Guard: st.reach, Goal: And(neg...)})
		}
	}
	for _, w := range ways {
		base := fmt.Sprintf("%s/step/%s@«%s»", fname, what, w.label)
		tr.oblCount[base]++
		tr.obls = append(tr.obls, &Obligation{Name: fmt.Sprintf("%s#%d", base, tr.oblCount[base]), Kind: "step", Fn: fname, Pos: loc, Src: ts.rel.text, Guard: w.guard, Goal: g, Tree: gt})
	}
}

// loopStoredAllocs: names of the address-taken locals (heap cells of this activation) that may be
// assigned while the loop runs: stored directly in a loop block, or through a closure created in
// the loop that assigns the captured variable.
func (a *Act) loopStoredAllocs(li *loopInfo) []string {
	seen := map[string]bool{}
	var out []string
	add := func(v ssa.Value) {
		if al, ok := v.(*ssa.Alloc); ok && !seen[al.Name()] {
			seen[al.Name()] = true
			out = append(out, al.Name())
		}
	}
	var storesFree func(f *ssa.Function, idx int, depth int) bool
	storesFree = func(f *ssa.Function, idx int, depth int) bool {
		if depth > 4 || idx >= len(f.FreeVars) {
			return true
		}
		fv := f.FreeVars[idx]
		for _, b := range f.Blocks {
			for _, in := range b.Instrs {
				switch x := in.(type) {
				case *ssa.Store:
					if x.Addr == ssa.Value(fv) {
						return true
					}
				case *ssa.MakeClosure:
					for j, bd := range x.Bindings {
						if bd == ssa.Value(fv) && storesFree(x.Fn.(*ssa.Function), j, depth+1) {
							return true
						}
					}
				default:
					// the address handed to anything else: assume assigned
					for _, op := range in.Operands(nil) {
						if *op == ssa.Value(fv) {
							if u, ok := in.(*ssa.UnOp); ok && u.Op == token.MUL {
								continue
							}
							if _, ok := in.(*ssa.DebugRef); ok {
								continue
							}
							return true
						}
					}
				}
			}
		}
		return false
	}
	for _, b := range sortedBlocks(li.blocks) {
		for _, in := range b.Instrs {
			switch x := in.(type) {
			case *ssa.Store:
				add(x.Addr)
			case *ssa.MakeClosure:
				for j, bd := range x.Bindings {
					if _, ok := bd.(*ssa.Alloc); ok && storesFree(x.Fn.(*ssa.Function), j, 0) {
						add(bd)
					}
				}
			case ssa.CallInstruction:
				// a closure made before the loop and invoked inside it
				if mc, ok := x.Common().Value.(*ssa.MakeClosure); ok {
					for j, bd := range mc.Bindings {
						if _, ok := bd.(*ssa.Alloc); ok && storesFree(mc.Fn.(*ssa.Function), j, 0) {
							add(bd)
						}
					}
				}
			}
		}
	}
	return out
}
