package main

// Heap components and versions. A heap version is a Go-level closure tree;
// reading at a key builds a quantifier-free term (memoised as define-funs).

import (
	"fmt"
	"go/types"
	"strings"
)

type Component struct {
	name     string   // e.g. elem:MalType, cell:types_Position, mdom:..., mval:..., mlen:...
	keySorts []string // sorts of the key tuple
	valSort  string
	value    bool // true for value containers (slices of MalType, lisp maps): C02 frame applies
	local    bool // private cell of one activation
	gotype   types.Type // type of the stored values (nil for ghost components)
}

type hkind int

const (
	hBase hkind = iota
	hStore
	hIte
	hFrame // keep(key) ? prev : fresh
	hCopy  // dst range copied from src
	hZero  // one object zero-initialised
	hSel   // keep(key) ? a : b
)

type HeapV struct {
	kind  hkind
	comp  *Component
	id    int
	fname string // hBase, hFrame: the fresh function symbol
	initial bool // hBase: the heap at root entry
	prev  *HeapV
	key   []Term
	val   Term
	cond  Term
	a, b  *HeapV
	keep  func(key []Term) Term
	// copy
	dstArr, dstLo, n Term
	src              *HeapV
	srcArr, srcLo    Term
	// zero
	obj  Term
	zero Term
	memo map[string]Term
	smtFn string
	memoFrame map[string]bool
	memoOwn   map[string][]Term // values this function stored itself that the read may yield
}

type heapCtx struct {
	tr *Tr
}

func (tr *Tr) newHeapBase(c *Component, hint string) *HeapV {
	tr.hcount++
	fname := fmt.Sprintf("H%d_%s", tr.hcount, mangle(hint))
	tr.declare(fmt.Sprintf("(declare-fun %s (%s) %s)", fname, strings.Join(c.keySorts, " "), c.valSort))
	return &HeapV{kind: hBase, comp: c, id: tr.hcount, fname: fname, memo: map[string]Term{}}
}

func (tr *Tr) heapStore(prev *HeapV, key []Term, val Term) *HeapV {
	tr.hcount++
	return &HeapV{kind: hStore, comp: prev.comp, id: tr.hcount, prev: prev, key: key, val: val, memo: map[string]Term{}}
}

func (tr *Tr) heapIte(cond Term, a, b *HeapV) *HeapV {
	if a == b {
		return a
	}
	if cond == "true" {
		return a
	}
	if cond == "false" {
		return b
	}
	tr.hcount++
	return &HeapV{kind: hIte, comp: a.comp, id: tr.hcount, cond: cond, a: a, b: b, memo: map[string]Term{}}
}

func (tr *Tr) heapFrame(prev *HeapV, keep func(key []Term) Term, hint string) *HeapV {
	tr.hcount++
	c := prev.comp
	fname := fmt.Sprintf("H%d_%s", tr.hcount, mangle(hint))
	tr.declare(fmt.Sprintf("(declare-fun %s (%s) %s)", fname, strings.Join(c.keySorts, " "), c.valSort))
	return &HeapV{kind: hFrame, comp: c, id: tr.hcount, fname: fname, prev: prev, keep: keep, memo: map[string]Term{}}
}

func (tr *Tr) heapCopy(prev *HeapV, dstArr, dstLo, n Term, src *HeapV, srcArr, srcLo Term) *HeapV {
	tr.hcount++
	return &HeapV{kind: hCopy, comp: prev.comp, id: tr.hcount, prev: prev, dstArr: dstArr, dstLo: dstLo, n: n,
		src: src, srcArr: srcArr, srcLo: srcLo, memo: map[string]Term{}}
}

func (tr *Tr) heapSel(keep func(key []Term) Term, a, b *HeapV) *HeapV {
	if a == b {
		return a
	}
	tr.hcount++
	return &HeapV{kind: hSel, comp: a.comp, id: tr.hcount, keep: keep, a: a, b: b, memo: map[string]Term{}}
}

func (tr *Tr) heapZero(prev *HeapV, obj Term, zero Term) *HeapV {
	tr.hcount++
	return &HeapV{kind: hZero, comp: prev.comp, id: tr.hcount, prev: prev, obj: obj, zero: zero, memo: map[string]Term{}}
}

// read builds the term for the value at key in heap version h.
func (tr *Tr) read(h *HeapV, key ...Term) Term {
	mk := strings.Join(key, "\x00")
	if t, ok := h.memo[mk]; ok {
		return t
	}
	t, viaFrame := tr.readRec(h, mk, key)
	if viaFrame && h.comp.gotype != nil && isInterface(h.comp.gotype) && !tr.quietReads && !tr.openTerm(mk) {
		// one assumption for the value read (not one per callee frame it may come from); the values
		// this function stored itself are excepted: their invariant is what it has to prove
		alts := []Term{app("valOK", t)}
		own := h.memoOwn[mk]
		if len(own) <= 8 {
			for _, v := range own {
				alts = append(alts, Eq(t, v))
			}
			tr.assume(Or(alts...), "values written by callees satisfy the data invariant")
		}
	}
	return t
}

// readRec returns the term and whether it may come from a callee's frame.
func (tr *Tr) readRec(h *HeapV, mk string, key []Term) (Term, bool) {
	if t, ok := h.memo[mk]; ok {
		return t, h.memoFrame[mk]
	}
	if h.kind != hBase && len(key) > 0 && tr.openTerm(mk) {
		// a key under a binder: go through the version's own SMT function,
		// so nested reads stay linear in size
		return app(tr.heapFn(h), key...), false
	}
	var t Term
	viaFrame := false
	var own []Term
	sub := func(h2 *HeapV, key2 ...Term) Term {
		mk2 := strings.Join(key2, "\x00")
		t2, f := tr.readRec(h2, mk2, key2)
		viaFrame = viaFrame || f
		for _, v := range h2.memoOwn[mk2] {
			dup := false
			for _, w := range own {
				if w == v {
					dup = true
				}
			}
			if !dup {
				own = append(own, v)
			}
		}
		return t2
	}
	switch h.kind {
	case hBase:
		t = app(h.fname, key...)
		if h.initial && h.comp.gotype != nil && !tr.quietReads && !tr.openTerm(mk) {
			var f Term
			if isInterface(h.comp.gotype) {
				f = And(app("idsOK", t, tr.alloc0), app("valOK", t))
			} else {
				f = tr.eng.sorts.idsOKTerm(h.comp.gotype, t, tr.alloc0, 0)
			}
			tr.assume(f, "values in the entry heap exist at entry")
		}
		if !h.initial {
			viaFrame = true
		}
	case hStore:
		conds := make([]Term, len(key))
		for i := range key {
			conds[i] = Eq(key[i], h.key[i])
		}
		t = Ite(And(conds...), h.val, sub(h.prev, key...))
		if h.val != "VNil" {
			own = append(own, h.val)
		}
	case hIte:
		t = Ite(h.cond, sub(h.a, key...), sub(h.b, key...))
	case hFrame:
		fresh := app(h.fname, key...)
		viaFrame = true
		t = Ite(h.keep(key), sub(h.prev, key...), fresh)
	case hCopy:
		in := And(Eq(key[0], h.dstArr), app("<=", h.dstLo, key[1]), app("<", key[1], app("+", h.dstLo, h.n)))
		t = Ite(in, sub(h.src, h.srcArr, app("+", app("-", key[1], h.dstLo), h.srcLo)), sub(h.prev, key...))
	case hZero:
		t = Ite(Eq(key[0], h.obj), h.zero, sub(h.prev, key...))
	case hSel:
		t = Ite(h.keep(key), sub(h.a, key...), sub(h.b, key...))
	}
	// memoise as a named definition unless the key mentions a bound variable
	if !tr.openTerm(mk) && len(t) > 40 {
		tr.rcount++
		name := fmt.Sprintf("rd%d", tr.rcount)
		tr.declare(fmt.Sprintf("(define-fun %s () %s %s)", name, h.comp.valSort, t))
		t = name
	}
	h.memo[mk] = t
	if h.memoFrame == nil {
		h.memoFrame = map[string]bool{}
	}
	h.memoFrame[mk] = viaFrame
	if len(own) > 0 {
		if h.memoOwn == nil {
			h.memoOwn = map[string][]Term{}
		}
		h.memoOwn[mk] = own
	}
	return t, viaFrame
}

// heapFn names an SMT function equal to reading version h at its
// parameters; the definition chains to the functions of earlier versions.
func (tr *Tr) heapFn(h *HeapV) string {
	if h.kind == hBase {
		return h.fname
	}
	if h.smtFn != "" {
		return h.smtFn
	}
	ps := make([]Term, len(h.comp.keySorts))
	decl := make([]string, len(ps))
	for i := range ps {
		ps[i] = fmt.Sprintf("hk%d!", i)
		decl[i] = fmt.Sprintf("(%s %s)", ps[i], h.comp.keySorts[i])
	}
	var body Term
	switch h.kind {
	case hStore:
		conds := make([]Term, len(ps))
		for i := range ps {
			conds[i] = Eq(ps[i], h.key[i])
		}
		body = Ite(And(conds...), h.val, app(tr.heapFn(h.prev), ps...))
	case hIte:
		body = Ite(h.cond, app(tr.heapFn(h.a), ps...), app(tr.heapFn(h.b), ps...))
	case hFrame:
		tr.boundVars = append(tr.boundVars, ps...)
		k := h.keep(ps)
		tr.boundVars = tr.boundVars[:len(tr.boundVars)-len(ps)]
		body = Ite(k, app(tr.heapFn(h.prev), ps...), app(h.fname, ps...))
	case hCopy:
		in := And(Eq(ps[0], h.dstArr), app("<=", h.dstLo, ps[1]), app("<", ps[1], app("+", h.dstLo, h.n)))
		body = Ite(in, app(tr.heapFn(h.src), h.srcArr, app("+", app("-", ps[1], h.dstLo), h.srcLo)), app(tr.heapFn(h.prev), ps...))
	case hZero:
		body = Ite(Eq(ps[0], h.obj), h.zero, app(tr.heapFn(h.prev), ps...))
	case hSel:
		tr.boundVars = append(tr.boundVars, ps...)
		k := h.keep(ps)
		tr.boundVars = tr.boundVars[:len(tr.boundVars)-len(ps)]
		body = Ite(k, app(tr.heapFn(h.a), ps...), app(tr.heapFn(h.b), ps...))
	}
	name := fmt.Sprintf("hf%d", h.id)
	tr.declare(fmt.Sprintf("(define-fun %s (%s) %s %s)", name, strings.Join(decl, " "), h.comp.valSort, body))
	h.smtFn = name
	return name
}

// openTerm reports whether s mentions a currently bound quantifier variable.
func (tr *Tr) openTerm(s string) bool {
	for _, bv := range tr.boundVars {
		if strings.Contains(s, bv) {
			return true
		}
	}
	return false
}
