package main

// Property checks: drive jobs, classify failures against known findings, write
// evidence and replay files, print VIOLATION / KNOWN-FINDING lines.

import (
	"encoding/json"
	"flag"
	"fmt"
	"os"
	"path/filepath"
	"regexp"
	"runtime"
	"sort"
	"strconv"
	"strings"
	"sync"
	"time"

	"golang.org/x/tools/go/ssa"
)

const verifDir = "/verif"

var outputDir = verifDir

type KnownFinding struct {
	Property   string `json:"property"`
	Obligation string `json:"obligation"`
	Status     string `json:"status"` // known | fixed
	What       string `json:"what"`
	Commit     string `json:"commit,omitempty"`
	Witness    string `json:"witness,omitempty"`
}

type Failure struct {
	Obl     *Obligation
	Tr      *Tr
	Known   *KnownFinding
	Replay  string
	Confirm string // "confirmed", "not-confirmed", "no-model", ""
	Extra   string // free-form description for non-obligation failures
	Name    string
}

type CheckCtx struct {
	eng      *Engine
	prop     *Property
	tier     string
	seed     int
	cfg      *SolverCfg
	scratch  string
	trs      []*Tr
	obls     []*Obligation
	oblTr    map[*Obligation]*Tr
	failures []*Failure
	funcs    map[string]bool
	assumptions map[string]bool
	trusted  map[string]bool
	notes    []string
	extra    map[string]any
	machineryErrors []string
	samples  []any
	bounded  *BoundedStats
	start    time.Time
}

type BoundedStats struct {
	Evaluations int
	Distinct    int
	Rule        string
	Samples     []any
	Exhaustive  bool
}

type Property struct {
	ID        string
	Level     string
	Technique string
	DesignRef string
	Run       func(c *CheckCtx)
	Explain   string
	ReplayOracle func(o *Obligation) string
}

var properties = map[string]*Property{}

func register(p *Property) { properties[p.ID] = p }

func loadKnownFindings() []*KnownFinding {
	var out []*KnownFinding
	data, err := os.ReadFile(filepath.Join(verifDir, "known_findings.json"))
	if err != nil {
		return nil
	}
	json.Unmarshal(data, &out)
	return out
}

var solverSem = make(chan struct{}, runtime.NumCPU())

// runJobs translates every job and discharges all obligations (kept by keep).
func (c *CheckCtx) runJobs(jobs []*Job, keepProp func(o *Obligation) bool) {
	// whatever a VC assumes must be checked in the same run: user loop invariants (assumed at
	// the loop head) and callee preconditions (the callee's ensures are assumed after the
	// call) are always kept, whatever the property's own selection
	keep := func(o *Obligation) bool {
		if o.Kind == "inv-init" || o.Kind == "inv-step" || o.Kind == "pre" {
			return true
		}
		return keepProp == nil || keepProp(o)
	}
	var trs []*Tr
	for _, j := range jobs {
		if j.Prop == "" {
			j.Prop = c.prop.ID
		}
		tr := c.translateSafe(j)
		if tr == nil {
			continue
		}
		trs = append(trs, tr)
		c.funcs[fnName(j.Fn)] = true
		for _, u := range tr.unsupported {
			c.note("unsupported construct (abstracted as unconstrained): " + u)
		}
		for _, u := range tr.specErrs {
			c.machineryErrors = append(c.machineryErrors, "contract error: "+u)
		}
		for _, k := range tr.errAt {
			if k < len(tr.obls) {
				tr.obls[k].SpecBroken = true
			}
		}
		for k := range tr.usedStubs {
			c.trusted["stub contract: "+k] = true
		}
		for k := range tr.havocked {
			c.trusted["unconstrained call: "+k] = true
		}
		for k := range tr.usedAssumed {
			c.trusted["assumed (not proved) contract clause: "+k] = true
		}
		for k := range tr.usedContracts {
			c.trusted["callee contract (checked on the callee when it is under contract): "+k] = true
		}
	}
	var wg sync.WaitGroup
	sem := make(chan struct{}, 8)
	for _, tr := range trs {
		wg.Add(1)
		sem <- struct{}{}
		go func(tr *Tr) {
			defer wg.Done()
			defer func() { <-sem }()
			t0 := time.Now()
			workers := 6
			if len(trs) <= 4 {
				workers = runtime.NumCPU()
			}
			tr.discharge(c.cfg, workers, keep)
			if os.Getenv("GOVC_TIMING") != "" {
				fmt.Fprintf(os.Stderr, "timing %6.1fs %s (%d obls, %d decls)\n", time.Since(t0).Seconds(), fnName(tr.root), len(tr.obls), len(tr.decls))
			}
		}(tr)
	}
	wg.Wait()
	for _, tr := range trs {
		if tr.coverResult == "unsat" {
			c.machineryErrors = append(c.machineryErrors, "vacuity: contradictory assumptions in the VC of "+fnName(tr.root))
		}
		c.trs = append(c.trs, tr)
		for _, o := range tr.obls {
			if o.Cand != nil || o.Result == "" {
				continue
			}
			c.obls = append(c.obls, o)
			c.oblTr[o] = tr
		}
	}
}

func (c *CheckCtx) translateSafe(j *Job) (tr *Tr) {
	defer func() {
		if r := recover(); r != nil {
			buf := make([]byte, 4096)
			n := runtime.Stack(buf, false)
			c.machineryErrors = append(c.machineryErrors, fmt.Sprintf("translator crashed on %s: %v\n%s", fnName(j.Fn), r, buf[:n]))
			tr = nil
		}
	}()
	return c.eng.translate(j)
}

func (c *CheckCtx) note(s string) {
	for _, n := range c.notes {
		if n == s {
			return
		}
	}
	c.notes = append(c.notes, s)
}

var safeName = regexp.MustCompile(`[^A-Za-z0-9_.-]+`)

// finish classifies failures, writes replay files and evidence, prints the verdict lines.
func (c *CheckCtx) finish() int {
	id := c.prop.ID
	known := loadKnownFindings()
	replayDir := filepath.Join(outputDir, "replays", id)
	os.RemoveAll(replayDir)
	os.MkdirAll(replayDir, 0o755)
	discharged := 0
	backends := map[string]int{}
	var solverMs int64
	for _, o := range c.obls {
		solverMs += o.TimeMs
		if o.Result == "unsat" {
			discharged++
			backends[o.Solver]++
			continue
		}
		f := &Failure{Obl: o, Tr: c.oblTr[o], Name: o.Name}
		c.failures = append(c.failures, f)
	}
	sort.Slice(c.failures, func(i, j int) bool { return c.failures[i].Name < c.failures[j].Name })
	violations, refuted := 0, 0
	knownMatched := []string{}
	for i, f := range c.failures {
		for _, k := range known {
			if k.Property == id && k.Status == "known" && k.Obligation == f.Name {
				f.Known = k
			}
		}
		if f.Known != nil {
			fmt.Printf("KNOWN-FINDING: property=%s %s %s\n", id, f.Name, f.Known.What)
			knownMatched = append(knownMatched, f.Name)
			continue
		}
		if f.Obl != nil && f.Obl.SpecBroken {
			// the clause names something that does not resolve in this tree (a renamed local, a
			// renumbered closure): the contract file is out of date, nothing is decided
			c.machineryErrors = append(c.machineryErrors, "undecided (contract clause does not resolve in this tree): "+f.Name)
			continue
		}
		violations++
		if f.Obl != nil && f.Obl.Result == "sat" {
			refuted++
		}
		path := filepath.Join(replayDir, fmt.Sprintf("%02d_%s.txt", i, safeName.ReplaceAllString(f.Name, "_")))
		if len(path) > 200 {
			path = path[:200] + ".txt"
		}
		c.writeReplay(f, path)
		suffix := ""
		if f.Confirm != "confirmed" {
			suffix = " no-failing-input-found"
		}
		fmt.Printf("VIOLATION property=%s replay=%s obligation=%s%s\n", id, path, strconv.Quote(f.Name), suffix)
	}
	// evidence
	samples := c.samples
	for i, o := range c.obls {
		if i >= 12 {
			break
		}
		samples = append(samples, map[string]any{"obligation": o.Name, "kind": o.Kind, "at": o.Pos, "result": o.Result, "backend": o.Solver, "ms": o.TimeMs})
	}
	for _, f := range c.failures {
		samples = append(samples, map[string]any{"obligation": f.Name, "result": "FAILED", "known_finding": f.Known != nil, "replay": f.Replay, "confirmation": f.Confirm})
	}
	funcs := sortedKeys(c.funcs)
	trusted := sortedKeys(c.trusted)
	assumptions := append(sortedKeys(c.assumptions), standingAssumptions...)
	cov := map[string]any{
		"obligations": len(c.obls), "discharged": discharged, "failed": len(c.failures),
		"checker_cmd":               fmt.Sprintf("./bin/govc check --property %s --tier %s", id, c.tier),
		"trusted_base":              trusted,
		"functions_under_contract":  funcs,
		"functions_count":           len(funcs),
		"backends":                  backends,
		"solver_time_ms":            solverMs,
		"known_findings_matched":    knownMatched,
		"samples":                   samples,
		"explanation":               c.prop.Explain,
		"notes":                     c.notes,
		"translation_drops":         translationDrops,
		"contract_files":            c.eng.contracts.files,
	}
	var deadNames []string
	for _, o := range c.obls {
		if o.Dead {
			deadNames = append(deadNames, o.Name)
		}
	}
	cov["dead_path_obligations"] = len(deadNames)
	if len(deadNames) > 40 {
		deadNames = deadNames[:40]
	}
	cov["dead_paths"] = deadNames
	cov["dead_path_rule"] = "obligations whose path condition the assumptions refute within 0.7 s (discharged vacuously): expected for code that is unreachable under the stated preconditions; listed so that a modelling error cannot hide behind them"
	for k, v := range c.extra {
		cov[k] = v
	}
	if c.bounded != nil {
		cov["evaluations"] = c.bounded.Evaluations
		cov["distinct_nontrivial"] = c.bounded.Distinct
		cov["rule"] = c.bounded.Rule
		cov["exhaustive"] = c.bounded.Exhaustive
		if len(c.bounded.Samples) > 0 {
			cov["samples"] = append(c.bounded.Samples, samples...)
		}
	} else if c.prop.Level != "proof" {
		// generic keys for non-proof levels: one case per obligation
		cov["evaluations"] = len(c.obls)
		cov["distinct_nontrivial"] = distinctNontrivial(c.obls)
		cov["rule"] = "one case per generated proof obligation; non-trivial = the negated goal is not syntactically false and the path condition is not 'false'; distinct by obligation name"
	}
	ev := map[string]any{
		"property_id": id, "tier": c.tier, "seed": c.seed, "level": c.prop.Level, "coverage": cov,
		"assumptions": assumptions, "wall_s": time.Since(c.start).Seconds(), "violations": violations,
	}
	os.MkdirAll(filepath.Join(outputDir, "evidence"), 0o755)
	data, _ := json.MarshalIndent(ev, "", " ")
	os.WriteFile(filepath.Join(outputDir, "evidence", id+".json"), data, 0o644)
	fmt.Printf("property=%s tier=%s functions=%d obligations=%d discharged=%d failed=%d known=%d violations=%d wall=%.1fs\n",
		id, c.tier, len(funcs), len(c.obls), discharged, len(c.failures), len(knownMatched), violations, time.Since(c.start).Seconds())
	if violations > 0 && c.bounded == nil {
		// how the back ends answered: a model of the negated obligation (refuted) or no answer within the limits
		fmt.Printf("verdicts: refuted-by-a-model=%d no-answer-within-the-limit=%d\n", refuted, violations-refuted)
	}
	for _, m := range c.machineryErrors {
		fmt.Println("MACHINERY-ERROR:", m)
	}
	if violations > 0 {
		return 1
	}
	if len(c.machineryErrors) > 0 {
		return 2
	}
	if len(c.obls) == 0 && c.bounded == nil {
		fmt.Println("MACHINERY-ERROR: no obligations generated")
		return 2
	}
	return 0
}

func distinctNontrivial(obls []*Obligation) int {
	seen := map[string]bool{}
	for _, o := range obls {
		if o.Goal == "true" || o.Guard == "false" {
			continue
		}
		seen[o.Name] = true
	}
	return len(seen)
}

var standingAssumptions = []string{
	"TB-SSA: golang.org/x/tools v0.29.0 go/packages, go/types, go/ssa agree with the gc compiler",
	"TB-GEN: govc's translation of SSA instructions and its slice/append/map/heap model",
	"TB-SMT: z3 4.8.12, z3 5.1.0, cvc5 1.0.3",
	"A-INT: machine integers treated as mathematical integers (no overflow)",
	"partial correctness: termination is not proved unless a decreases obligation is listed",
	"no goroutine interleavings, no memory-model effects, no blocking semantics in the sequential VCs",
}

var translationDrops = []string{
	"goroutine interleavings and memory-model effects", "blocking of channel and mutex operations", "integer overflow", "float arithmetic (opaque)",
	"string contents beyond equality/length/prefix/suffix/concat/constant slicing", "reflect/runtime/fmt/os/time/json/regexp/uuid/spew internals (stubs or unconstrained results)",
	"the third-party scanner github.com/jig/scanner (assumed token contract)", "stack exhaustion", "termination (partial correctness)",
	"effects of deferred calls on panicking paths in functions that do not recover",
}

func (c *CheckCtx) writeReplay(f *Failure, path string) {
	var b strings.Builder
	o := f.Obl
	fmt.Fprintf(&b, "property: %s\n", c.prop.ID)
	if o != nil {
		fmt.Fprintf(&b, "failed obligation: %s\nkind: %s\nfunction: %s\nat: %s\nsource: %s\nsolver verdict: %s (%s, %d ms)\n", o.Name, o.Kind, o.Fn, o.Pos, o.Src, o.Result, o.Solver, o.TimeMs)
		fmt.Fprintf(&b, "path condition (SMT): %s\ngoal (SMT): %s\n", o.Guard, o.Goal)
		if f.Tr != nil {
			c.tryReplay(f, &b)
		}
		fmt.Fprintf(&b, "\n--- solver output ---\n%s\n", o.Model)
	} else {
		fmt.Fprintf(&b, "failure: %s\n%s\n", f.Name, f.Extra)
	}
	os.WriteFile(path, []byte(b.String()), 0o644)
	f.Replay = path
}

// ---------------------------------------------------------------------------

func cmdCheck(args []string) int {
	fs := flag.NewFlagSet("check", flag.ExitOnError)
	prop := fs.String("property", "", "property id")
	tier := fs.String("tier", "", "quick|thorough")
	repo := fs.String("repo", "/repo", "repository")
	outDir := fs.String("out", verifDir, "directory receiving evidence/ and replays/ (selftest uses a scratch directory)")
	fs.Parse(args)
	outputDir = *outDir
	if *tier == "" {
		*tier = os.Getenv("VERIF_TIER")
	}
	if *tier == "" {
		*tier = "quick"
	}
	seed, _ := strconv.Atoi(os.Getenv("VERIF_SEED"))
	p, ok := properties[*prop]
	if !ok {
		fmt.Fprintln(os.Stderr, "unknown property", *prop)
		return 2
	}
	start := time.Now()
	eng, err := loadEngine(*repo)
	if err != nil {
		// a tree that does not build is a machinery error, not a verdict
		fmt.Println("MACHINERY-ERROR: cannot load /repo:", err)
		return 2
	}
	scratch := scratchDir()
	defer os.RemoveAll(scratch)
	cfg := &SolverCfg{TimeoutMs: 20000, Scratch: scratch, Seed: seed}
	if *tier == "thorough" {
		cfg.TimeoutMs = 60000
		cfg.Race = true
		specTier = "thorough"
	}
	if p.ID == "C03" {
		// the try form is what C03 is about: its full relation (tryStepThorough ...) is used in both
		// tiers; the other evaluator properties keep the short one in the quick tier
		specTier = "thorough"
	}
	c := &CheckCtx{eng: eng, prop: p, tier: *tier, seed: seed, cfg: cfg, scratch: scratch, oblTr: map[*Obligation]*Tr{},
		funcs: map[string]bool{}, assumptions: map[string]bool{}, trusted: map[string]bool{}, extra: map[string]any{}, start: start}
	for _, e := range eng.contracts.errors {
		c.machineryErrors = append(c.machineryErrors, "contract file: "+e)
	}
	p.Run(c)
	return c.finish()
}

// helper: all functions (incl. closures) of the given module packages
func (c *CheckCtx) funcsIn(pkgs ...string) []*ssa.Function {
	return c.eng.moduleFuncs(pkgs...)
}

// runLemmas proves the spec-level lemmas tagged with the property id.
func (c *CheckCtx) runLemmas(prop string) {
	for _, lm := range c.eng.contracts.lemmas {
		tagged := false
		for _, p := range lm.props {
			if p == prop {
				tagged = true
			}
		}
		if !tagged || lm.goal == nil {
			continue
		}
		tr := c.eng.bareTr()
		st := tr.rootAct.entryState
		vars := map[string]specVal{}
		for i, v := range lm.vars {
			t := tr.freshConst("lv_"+v, tr.eng.sorts.sortOf(lm.types[i]))
			vars[v] = specVal{t, lm.types[i]}
			tr.rootAct.assumeWF(st, lm.types[i], t, 1)
		}
		var errs []string
		e := &specEnv{tr: tr, pkg: lm.pkg, st: st, old: st, vars: vars, errs: &errs}
		for _, h := range lm.hyps {
			tr.assume(e.evalBool(h.expr), "lemma hypothesis: "+h.text)
		}
		goal := e.evalBool(lm.goal.expr)
		for _, m := range errs {
			c.machineryErrors = append(c.machineryErrors, "lemma "+lm.name+": "+m)
		}
		o := &Obligation{Name: "lemma/" + lm.name + "/«" + normSrc(lm.goal.text) + "»", Kind: "lemma", Fn: "spec", Src: lm.goal.text, Guard: "true", Goal: goal}
		tr.obls = append(tr.obls, o)
		tr.discharge(c.cfg, 4, nil)
		c.trs = append(c.trs, tr)
		c.obls = append(c.obls, o)
		c.oblTr[o] = tr
		c.funcs["lemma "+lm.name] = true
	}
}
