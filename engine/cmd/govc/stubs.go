package main

// Stated contracts of standard-library functions (trusted base TB-STUB).
// Anything outside the module without a stub: results unconstrained, lisp heap untouched.

import (
	"fmt"
	"go/token"
	"go/types"
	"strings"

	"golang.org/x/tools/go/ssa"
)

type stubFn func(a *Act, st *State, callee *ssa.Function, args []Term, pos token.Pos) []Term

func (tr *Tr) freshError(st *State, hint string) Term {
	code := tr.eng.sorts.otherCode("goerror")
	id := tr.freshConst("errid_"+hint, "Int")
	return fmt.Sprintf("(VOther %d %s)", code, id)
}

// lock ghost state
func (tr *Tr) lockComp() *Component  { return tr.comp("ghost:lock", []string{"Int"}, "Int", false) }
func (tr *Tr) lockCount() *Component { return tr.comp("ghost:lockcount", nil, "Int", false) }

func (tr *Tr) lockState(st *State, addr Term) Term { return tr.read(tr.heapOf(st, tr.lockComp()), addr) }
func (tr *Tr) noLocksHeld(st *State) Term {
	return Eq(tr.read(tr.heapOf(st, tr.lockCount())), "0")
}
func (tr *Tr) setLock(st *State, addr Term, v Term, delta int) {
	c := tr.lockComp()
	st.heap[c.name] = tr.heapStore(tr.heapOf(st, c), []Term{addr}, v)
	cc := tr.lockCount()
	cur := tr.read(tr.heapOf(st, cc))
	st.heap[cc.name] = tr.heapStore(tr.heapOf(st, cc), nil, tr.define("lockcount", "Int", app("+", cur, IntLit(int64(delta)))))
}

func (tr *Tr) ctxDone(ctx Term) Term {
	tr.eng.declareOnce(tr, "ctx_done", "(declare-fun ctx_done (Val) Bool)")
	return app("ctx_done", ctx)
}

func (tr *Tr) ctxDoneChan(ctx Term) Term {
	tr.eng.declareOnce(tr, "ctx_donechan", "(declare-fun ctx_donechan (Val) Int)")
	return app("ctx_donechan", ctx)
}

func (tr *Tr) ctxParent(ctx Term) Term {
	tr.eng.declareOnce(tr, "ctx_parent", "(declare-fun ctx_parent (Val) Val)")
	return app("ctx_parent", ctx)
}

var stubs map[string]stubFn

func init() {
	errRes := func(hint string) stubFn {
		return func(a *Act, st *State, callee *ssa.Function, args []Term, pos token.Pos) []Term {
			return []Term{a.tr.freshError(st, hint)}
		}
	}
	str := func(hint string) stubFn {
		return func(a *Act, st *State, callee *ssa.Function, args []Term, pos token.Pos) []Term {
			return []Term{a.tr.freshConst(hint, "String")}
		}
	}
	none := func(a *Act, st *State, callee *ssa.Function, args []Term, pos token.Pos) []Term { return nil }
	lockOp := func(want string, to string, delta int, kind string) stubFn {
		return func(a *Act, st *State, callee *ssa.Function, args []Term, pos token.Pos) []Term {
			tr := a.tr
			addr := args[0]
			cur := tr.lockState(st, addr)
			if tr.lockMode {
				switch kind {
				case "unlock":
					a.oblige(st, "lock/balance", pos, "true", Eq(cur, want), nil)
				case "lock":
					// locking a mutex this thread already holds deadlocks (not re-entrant)
					a.oblige(st, "lock/no-self-deadlock", pos, "true", Eq(cur, "0"), nil)
				}
				if tr.eng.hooks.onLock != nil {
					tr.eng.hooks.onLock(a, st, kind, addr, pos)
				}
			}
			tr.setLock(st, addr, to, delta)
			return nil
		}
	}
	_ = errRes
	stubs = map[string]stubFn{
		"errors.New": func(a *Act, st *State, callee *ssa.Function, args []Term, pos token.Pos) []Term {
			// a new error whose Error() is the given text
			r := a.tr.freshError(st, "new")
			a.tr.eng.declareOnce(a.tr, "spec_errorString", "(declare-fun spec_errorString (Val) String)")
			a.tr.assume(Implies(st.reach, Eq(app("spec_errorString", r), args[0])), "errors.New(s).Error() == s")
			return []Term{r}
		},
		"fmt.Errorf": func(a *Act, st *State, callee *ssa.Function, args []Term, pos token.Pos) []Term {
			// a new error; with a literal format its text starts with the format's text before the first verb
			r := a.tr.freshError(st, "errorf")
			f := string(args[0])
			if len(f) >= 2 && f[0] == '"' && !strings.HasPrefix(f, "\"%") {
				if i := strings.IndexByte(f, '%'); i > 1 {
					a.tr.eng.declareOnce(a.tr, "spec_errorString", "(declare-fun spec_errorString (Val) String)")
					a.tr.assume(Implies(st.reach, app("str.prefixof", Term(f[:i]+"\""), app("spec_errorString", r))), "fmt.Errorf(literal format).Error() starts with the format's text before its first verb")
				}
			}
			return []Term{r}
		},
		"fmt.Sprintf": str("sprintf"),
		"fmt.Sprint":  str("sprint"),
		"fmt.Sprintln": str("sprintln"),
		"fmt.Println": func(a *Act, st *State, callee *ssa.Function, args []Term, pos token.Pos) []Term {
			return []Term{a.tr.freshConst("n", "Int"), a.tr.freshConst("err", "Val")}
		},
		"fmt.Print": func(a *Act, st *State, callee *ssa.Function, args []Term, pos token.Pos) []Term {
			return []Term{a.tr.freshConst("n", "Int"), a.tr.freshConst("err", "Val")}
		},
		"fmt.Printf": func(a *Act, st *State, callee *ssa.Function, args []Term, pos token.Pos) []Term {
			return []Term{a.tr.freshConst("n", "Int"), a.tr.freshConst("err", "Val")}
		},
		"strings.HasPrefix": func(a *Act, st *State, callee *ssa.Function, args []Term, pos token.Pos) []Term {
			return []Term{app("str.prefixof", args[1], args[0])}
		},
		"strings.HasSuffix": func(a *Act, st *State, callee *ssa.Function, args []Term, pos token.Pos) []Term {
			return []Term{app("str.suffixof", args[1], args[0])}
		},
		"strings.LastIndex": func(a *Act, st *State, callee *ssa.Function, args []Term, pos token.Pos) []Term {
			tr := a.tr
			r := tr.freshConst("lastindex", "Int")
			tr.assume(Implies(st.reach, And(app("<=", "(- 1)", r), app("<=", app("+", r, app("str.len", args[1])), app("str.len", args[0])),
				Eq(app(">=", r, "0"), app("str.contains", args[0], args[1])))), "strings.LastIndex: -1 or an index where sep occurs")
			return []Term{r}
		},
		"strings.Cut": func(a *Act, st *State, callee *ssa.Function, args []Term, pos token.Pos) []Term {
			tr := a.tr
			before, after, found := tr.freshConst("cut_before", "String"), tr.freshConst("cut_after", "String"), tr.freshConst("cut_found", "Bool")
			tr.assume(Implies(st.reach, Ite(found, Eq(args[0], app("str.++", before, args[1], after)), And(Eq(before, args[0]), Eq(after, `""`)))),
				"strings.Cut: s == before+sep+after when found, else before == s, after == \"\"")
			return []Term{before, after, found}
		},
		"strings.Trim": func(a *Act, st *State, callee *ssa.Function, args []Term, pos token.Pos) []Term {
			tr := a.tr
			r := tr.freshConst("trim", "String")
			tr.assume(Implies(st.reach, And(app("<=", app("str.len", r), app("str.len", args[0])), app("str.contains", args[0], r))), "strings.Trim returns a substring")
			return []Term{r}
		},
		"strings.ToLower": func(a *Act, st *State, callee *ssa.Function, args []Term, pos token.Pos) []Term {
			return []Term{a.tr.freshConst("lower", "String")}
		},
		"strings.Replace": str("replace"),
		"strings.Join":    str("join"),
		"reflect.TypeOf": func(a *Act, st *State, callee *ssa.Function, args []Term, pos token.Pos) []Term {
			tr := a.tr
			code := tr.eng.sorts.otherCode("reflect.rtype")
			// reflect.TypeOf(nil) == nil
			return []Term{Ite(Eq(args[0], "VNil"), "VNil", fmt.Sprintf("(VOther %d (dynTypeId %s))", code, args[0]))}
		},
		"(reflect.Type).Name": func(a *Act, st *State, callee *ssa.Function, args []Term, pos token.Pos) []Term {
			a.mayPanic(st, "nilderef", pos, Not(Eq(args[0], "VNil")), "")
			return []Term{app("typeNameOf", app("oth_id", args[0]))}
		},
		"(*sync.RWMutex).Lock":    lockOp("0", "2", 1, "lock"),
		"(*sync.RWMutex).Unlock":  lockOp("2", "0", -1, "unlock"),
		"(*sync.RWMutex).RLock":   lockOp("0", "1", 1, "lock"),
		"(*sync.RWMutex).RUnlock": lockOp("1", "0", -1, "unlock"),
		"(*sync.Mutex).Lock":      lockOp("0", "2", 1, "lock"),
		"(*sync.Mutex).Unlock":    lockOp("2", "0", -1, "unlock"),
		"context.Background": func(a *Act, st *State, callee *ssa.Function, args []Term, pos token.Pos) []Term {
			tr := a.tr
			c := tr.freshConst("ctx_bg", "Val")
			tr.assume(Implies(st.reach, And(Not(Eq(c, "VNil")), Not(tr.ctxDone(c)))), "context.Background is non-nil and never done")
			return []Term{c}
		},
		"context.WithCancel": func(a *Act, st *State, callee *ssa.Function, args []Term, pos token.Pos) []Term {
			tr := a.tr
			a.mayPanic(st, "nilctx", pos, Not(Eq(args[0], "VNil")), "")
			c := tr.freshConst("ctx_child", "Val")
			cancel := tr.freshConst("cancelfn", "Int")
			tr.assume(Implies(st.reach, And(Not(Eq(c, "VNil")), Eq(tr.ctxParent(c), args[0]), Implies(tr.ctxDone(args[0]), tr.ctxDone(c)), app(">", cancel, st.alloc))),
				"context.WithCancel: child of the given context, done when the parent is")
			st.alloc = tr.define("alloc", "Int", cancel)
			return []Term{c, cancel}
		},
		"context.WithTimeout": func(a *Act, st *State, callee *ssa.Function, args []Term, pos token.Pos) []Term {
			tr := a.tr
			a.mayPanic(st, "nilctx", pos, Not(Eq(args[0], "VNil")), "")
			c := tr.freshConst("ctx_child", "Val")
			cancel := tr.freshConst("cancelfn", "Int")
			tr.assume(Implies(st.reach, And(Not(Eq(c, "VNil")), Eq(tr.ctxParent(c), args[0]), Implies(tr.ctxDone(args[0]), tr.ctxDone(c)), app(">", cancel, st.alloc))),
				"context.WithTimeout: child of the given context, done when the parent is")
			st.alloc = tr.define("alloc", "Int", cancel)
			return []Term{c, cancel}
		},
		"(context.Context).Done": func(a *Act, st *State, callee *ssa.Function, args []Term, pos token.Pos) []Term {
			a.mayPanic(st, "nilderef", pos, Not(Eq(args[0], "VNil")), "")
			return []Term{a.tr.ctxDoneChan(args[0])}
		},
		"(context.Context).Deadline": func(a *Act, st *State, callee *ssa.Function, args []Term, pos token.Pos) []Term {
			a.mayPanic(st, "nilderef", pos, Not(Eq(args[0], "VNil")), "")
			return []Term{a.tr.freshConst("deadline", "Int"), a.tr.freshConst("has_deadline", "Bool")}
		},
		"(context.Context).Err": func(a *Act, st *State, callee *ssa.Function, args []Term, pos token.Pos) []Term {
			a.mayPanic(st, "nilderef", pos, Not(Eq(args[0], "VNil")), "")
			return []Term{a.tr.freshConst("ctxerr", "Val")}
		},
		"(error).Error": func(a *Act, st *State, callee *ssa.Function, args []Term, pos token.Pos) []Term {
			a.mayPanic(st, "nilderef", pos, Not(Eq(args[0], "VNil")), "")
			a.tr.eng.declareOnce(a.tr, "spec_errorString", "(declare-fun spec_errorString (Val) String)")
			return []Term{app("spec_errorString", args[0])}
		},
		"(interface{ErrorValue() types.MalType}).ErrorValue": func(a *Act, st *State, callee *ssa.Function, args []Term, pos token.Pos) []Term {
			a.mayPanic(st, "nilderef", pos, Not(Eq(args[0], "VNil")), "")
			a.tr.eng.declareOnce(a.tr, "spec_errorValueOf", "(declare-fun spec_errorValueOf (Val) Val)")
			r := app("spec_errorValueOf", args[0])
			a.assumeWF(st, types.NewInterfaceType(nil, nil), r, 1)
			return []Term{r}
		},
		"(marshaler.HashMap).MarshalHashMap": func(a *Act, st *State, callee *ssa.Function, args []Term, pos token.Pos) []Term {
			tr := a.tr
			a.mayPanic(st, "nilderef", pos, Not(Eq(args[0], "VNil")), "")
			v, e := tr.freshConst("marshalled", "Val"), tr.freshConst("marshal_err", "Val")
			if hm := tr.eng.namedType("types", "HashMap"); hm != nil {
				tr.assume(Implies(st.reach, Or(Not(Eq(e, "VNil")), tr.eng.sorts.isCtor(hm, v))), "marshaler.HashMap contract: MarshalHashMap returns a types.HashMap or an error")
			}
			a.assumeWF(st, types.NewInterfaceType(nil, nil), v, 1)
			return []Term{v, e}
		},
		"(reflect.Type).NumIn": func(a *Act, st *State, callee *ssa.Function, args []Term, pos token.Pos) []Term {
			a.mayPanic(st, "nilderef", pos, Not(Eq(args[0], "VNil")), "")
			a.tr.eng.declareOnce(a.tr, "spec_rtNumIn", "(declare-fun spec_rtNumIn (Val) Int)")
			r := app("spec_rtNumIn", args[0])
			a.tr.assume(app(">=", r, "0"), "reflect: NumIn >= 0")
			return []Term{r}
		},
		"(reflect.Type).NumOut": func(a *Act, st *State, callee *ssa.Function, args []Term, pos token.Pos) []Term {
			a.mayPanic(st, "nilderef", pos, Not(Eq(args[0], "VNil")), "")
			a.tr.eng.declareOnce(a.tr, "spec_rtNumOut", "(declare-fun spec_rtNumOut (Val) Int)")
			r := app("spec_rtNumOut", args[0])
			a.tr.assume(app(">=", r, "0"), "reflect: NumOut >= 0")
			return []Term{r}
		},
		"(reflect.Type).IsVariadic": func(a *Act, st *State, callee *ssa.Function, args []Term, pos token.Pos) []Term {
			a.mayPanic(st, "nilderef", pos, Not(Eq(args[0], "VNil")), "")
			a.tr.eng.declareOnce(a.tr, "spec_rtVariadic", "(declare-fun spec_rtVariadic (Val) Bool)")
			return []Term{app("spec_rtVariadic", args[0])}
		},
		"(reflect.Type).In": func(a *Act, st *State, callee *ssa.Function, args []Term, pos token.Pos) []Term {
			a.mayPanic(st, "nilderef", pos, Not(Eq(args[0], "VNil")), "")
			r := a.tr.freshConst("rtype", "Val")
			a.tr.assume(Implies(st.reach, And(Not(Eq(r, "VNil")), app("idsOK", r, st.alloc))), "reflect: Type.In returns a non-nil type")
			return []Term{r}
		},
		"(reflect.Type).Elem": func(a *Act, st *State, callee *ssa.Function, args []Term, pos token.Pos) []Term {
			a.mayPanic(st, "nilderef", pos, Not(Eq(args[0], "VNil")), "")
			r := a.tr.freshConst("rtype", "Val")
			a.tr.assume(Implies(st.reach, And(Not(Eq(r, "VNil")), app("idsOK", r, st.alloc))), "reflect: Type.Elem returns a non-nil type")
			return []Term{r}
		},
		"reflect.ValueOf": func(a *Act, st *State, callee *ssa.Function, args []Term, pos token.Pos) []Term {
			a.tr.eng.declareOnce(a.tr, "spec_rvOf", "(declare-fun spec_rvOf (Val) Int)")
			return []Term{app("spec_rvOf", args[0])}
		},
		"reflect.Zero": func(a *Act, st *State, callee *ssa.Function, args []Term, pos token.Pos) []Term {
			a.tr.eng.declareOnce(a.tr, "spec_rvZero", "(declare-fun spec_rvZero (Val) Int)")
			return []Term{app("spec_rvZero", args[0])}
		},
		"(reflect.Value).Interface": func(a *Act, st *State, callee *ssa.Function, args []Term, pos token.Pos) []Term {
			tr := a.tr
			tr.eng.declareOnce(tr, "spec_rvInterface", "(declare-fun spec_rvInterface (Int) Val)")
			r := app("spec_rvInterface", args[0])
			a.assumeWF(st, types.NewInterfaceType(nil, nil), r, 1)
			return []Term{r}
		},
		"(reflect.Value).Call": func(a *Act, st *State, callee *ssa.Function, args []Term, pos token.Pos) []Term {
			tr := a.tr
			// reflect panics (before invoking) unless every argument is assignable to its parameter
			ok := tr.freshConst("assignable", "Bool")
			c := tr.comp("ghost:assignable", nil, "Int", false)
			st.heap[c.name] = tr.heapStore(tr.heapOf(st, c), nil, Ite(ok, "1", "0"))
			a.mayPanic(st, "reflectcall", pos, ok, tr.freshConst("reflectpanic", "Val"))
			ic := tr.comp("ghost:invoked", nil, "Int", false)
			cur := tr.read(tr.heapOf(st, ic))
			st.heap[ic.name] = tr.heapStore(tr.heapOf(st, ic), nil, tr.define("invoked", "Int", app("+", cur, "1")))
			la := tr.comp("ghost:invokedLen", nil, "Int", false)
			st.heap[la.name] = tr.heapStore(tr.heapOf(st, la), nil, app("s_len", args[1]))
			// the called Go function may itself panic
			fok := tr.freshConst("gofn_returns", "Bool")
			a.mayPanic(st, "gofunc", pos, fok, tr.freshConst("gofnpanic", "Val"))
			r := tr.freshConst("callres", "Slice")
			tr.assume(Implies(st.reach, And(tr.wfSlice(r), app(">", app("s_arr", r), st.alloc), Eq(app("s_len", r), app("spec_rtNumOutOfValue", args[0])))), "reflect.Value.Call returns NumOut results in a fresh slice")
			tr.eng.declareOnce(tr, "spec_rtNumOutOfValue", "(declare-fun spec_rtNumOutOfValue (Int) Int)")
			st.alloc = tr.define("alloc", "Int", app("s_arr", r))
			return []Term{r}
		},
		// the third-party scanner as a state machine: Scan advances a ghost state; Pos and TokenText
		// are functions of that state (A-SCAN: what they return is assumed, that repeated calls
		// between two Scans agree is all the model adds)
		"(*github.com/jig/scanner.Scanner).Scan": func(a *Act, st *State, callee *ssa.Function, args []Term, pos token.Pos) []Term {
			tr := a.tr
			c := tr.comp("ghost:scan", nil, "Int", false)
			cur := tr.read(tr.heapOf(st, c))
			nx := tr.define("scanstate", "Int", app("+", cur, "1"))
			st.heap[c.name] = tr.heapStore(tr.heapOf(st, c), nil, nx)
			tr.eng.declareOnce(tr, "scan_tok", "(declare-fun scan_tok (Int) Int)")
			return []Term{app("scan_tok", nx)}
		},
		"(*github.com/jig/scanner.Scanner).Pos": func(a *Act, st *State, callee *ssa.Function, args []Term, pos token.Pos) []Term {
			tr := a.tr
			c := tr.comp("ghost:scan", nil, "Int", false)
			cur := tr.read(tr.heapOf(st, c))
			rs := a.sortOf(callee.Signature.Results().At(0).Type())
			tr.eng.declareOnce(tr, "scan_pos", fmt.Sprintf("(declare-fun scan_pos (Int) %s)", rs))
			return []Term{app("scan_pos", cur)}
		},
		"(*github.com/jig/scanner.Scanner).TokenText": func(a *Act, st *State, callee *ssa.Function, args []Term, pos token.Pos) []Term {
			tr := a.tr
			c := tr.comp("ghost:scan", nil, "Int", false)
			cur := tr.read(tr.heapOf(st, c))
			tr.eng.declareOnce(tr, "scan_text", "(declare-fun scan_text (Int) String)")
			return []Term{app("scan_text", cur)}
		},
		"time.Until": func(a *Act, st *State, callee *ssa.Function, args []Term, pos token.Pos) []Term {
			return []Term{a.tr.freshConst("dur", "Int")}
		},
		"os.Exit": func(a *Act, st *State, callee *ssa.Function, args []Term, pos token.Pos) []Term {
			st.reach = "false"
			return nil
		},
	}
	_ = none
	_ = types.Typ
}

func (e *Engine) stubFor(name string) stubFn { return stubs[name] }

func (e *Engine) stubMods(name string, mods map[string]bool, tr *Tr) {
	switch name {
	case "(*sync.RWMutex).Lock", "(*sync.RWMutex).Unlock", "(*sync.RWMutex).RLock", "(*sync.RWMutex).RUnlock", "(*sync.Mutex).Lock", "(*sync.Mutex).Unlock":
		mods[tr.lockComp().name] = true
		mods[tr.lockCount().name] = true
	}
}
