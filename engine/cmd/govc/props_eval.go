package main

// C01, C03, C08, C12, C18: the evaluator refines the language definition.
//
// EVAL's loop carries the clause "loop 1 tailrec evalStep(ast, env, world(), OUT)": for every
// way out of an iteration (each return, each back edge) the outcome (value, error, world) must
// satisfy the step relation evalStep of the language definition written in
// /repo/zz_contracts_verif.go; the abstract outcome function evalOut is its least fixed point
// (assumed for callees, including the recursive calls; checked here for one unfolding). The
// properties share this proof and differ in which obligations they keep.

import (
	"fmt"
	"go/ast"
	"go/token"
	"go/types"
	"regexp"
	"strconv"
	"strings"

	"golang.org/x/tools/go/ssa"
)

var evalRoots = []string{"lisp.EVAL", "lisp.eval_ast", "lisp.do", "lisp.macroexpand", "lisp.is_macro_call", "lisp.first", "lisp.starts_with", "types.Apply"}

var evalCaseRE = regexp.MustCompile(`^\t\t(?:case "(\w+)"|(default)):`)

// evalCaseOf names the special form (case of EVAL's dispatch) in which the source position lies.
func (c *CheckCtx) evalCaseOf(pos string) string {
	i := strings.LastIndex(pos, ":")
	if i < 0 || !strings.HasPrefix(pos, "mal.go:") {
		return ""
	}
	line, err := strconv.Atoi(pos[i+1:])
	if err != nil {
		return ""
	}
	f := c.eng.lookupFunc("lisp.EVAL")
	if f == nil {
		return ""
	}
	file := c.eng.fset.Position(f.Pos()).Filename
	start := c.eng.fset.Position(f.Pos()).Line
	if line < start {
		return ""
	}
	for l := line; l >= start; l-- {
		src := c.eng.sourceLine(file, l)
		if strings.HasPrefix(src, "\t\tswitch a0sym") {
			return "dispatch"
		}
		if m := evalCaseRE.FindStringSubmatch(src); m != nil {
			// only the cases of the a0sym switch (those after its header)
			for k := l; k >= start; k-- {
				s2 := c.eng.sourceLine(file, k)
				if strings.HasPrefix(s2, "\t\tswitch a0sym") {
					if m[1] != "" {
						return m[1]
					}
					return "apply"
				}
				if strings.HasPrefix(s2, "\t\tswitch ") {
					break
				}
			}
		}
	}
	return "prologue"
}

func (c *CheckCtx) evalJobs(names []string) []*Job {
	return c.jobsFor(names, func(f *ssa.Function) *Job {
		return &Job{Fn: f, PanicMode: "ignore", NoTimeouts: true}
	})
}

func (c *CheckCtx) evalAssumptions() {
	c.assumptions["A-FIX: evalOut/evalAstOut/doOut/mexpOut/applyOut (the outcome of evaluating a form in a scope and world) are the functions defined by the step relations; every call made by the evaluator, including its recursive calls, is assumed to return that outcome (the @assume clauses), and each function's own body is checked to satisfy one unfolding for every input. Partial correctness: termination of lisp programs is not claimed"] = true
	c.assumptions["A-WORLD: scopes are modelled by an abstract world threaded through every effectful call; the env operations are named by uninterpreted functions (lookupV/lookupOK/defW/scopeR/scopeW/bindR/bindE/bindW) whose relation to env.go is assumed here and checked separately on env.go (scope-chain contracts, C01 env layer)"] = true
	c.assumptions["A-FN: a builtin (types.Func.Fn) is a function of its arguments and the world (fnOut), and does not panic; builtins are under their own contracts in C13/C20"] = true
	c.assumptions["A-TIME: no context expires during the evaluation (the timeout return is the only clock-dependent path and is covered by C07's reasoning, not here)"] = true
	c.assumptions["A-IMMUT: forms are immutable once built (C02), so the step relation may read a form in any heap of the iteration in which it exists (readsat points)"] = true
	c.assumptions["try: the full relation (tryStepThorough with the cut lemmas tryShapeThorough/tryArityThorough) is checked by C03 in both tiers and by C01/C08/C12/C18 in the thorough tier; their quick tier checks the empty try form only"] = true
	c.assumptions["quasiquote: EVAL evaluates quasiquote()'s result in tail position in the same scope; the transform itself is checked under C12 (qqStep/qqRel); the evaluation lemma (transformed form evaluates to the substituted template) is not proved"] = true
}

func keepEval(o *Obligation) bool {
	return o.Kind == "step" || o.Kind == "post" || o.Kind == "assert"
}

func init() {
	register(&Property{
		ID: "C01", Level: "proof",
		Technique: "contract-based deductive verification: refinement of a world-threaded language definition (step relation evalStep over abstract outcome functions) by EVAL's tail-recursive loop, eval_ast, do, Apply, plus scope-chain contracts on env.go; VCs from go/ssa, discharged by z3/cvc5 (decision-tree walk per step obligation)",
		DesignRef: "DESIGN.md §4 C01",
		Explain:   "for every form, scope and world: each exit of an EVAL iteration yields the value, error and world the definition prescribes for def, if, do, fn, quote, application (closures, builtins), symbols/lists/vectors; let (sequential bindings in a new scope, body, first failing binding); effect order is the order in which the world is threaded. Not covered here: try (C03), hash-map literal evaluation order",
		Run:       runC01,
	})
	register(&Property{
		ID: "C08", Level: "proof",
		Technique: "contract-based deductive verification: obligation tco/return-in-tail-position on every return of EVAL's loop (no case of the step relation that continues with a form in tail position is reachable at a return, so those cases leave the iteration only through the back edge), with the step/continue obligations showing the back edge carries the right form, scope and world",
		DesignRef: "DESIGN.md §4 C08",
		Explain:   "tail positions (do/let/fn bodies' last form, selected if branch, closure application, quasiquote result, macro expansions of these) re-enter the loop instead of calling EVAL: constant host stack by construction of a Go for-loop; holds with Stepper == nil (the debugger deliberately recurses)",
		Run:       runC08,
	})
	register(&Property{
		ID: "C12", Level: "other",
		Technique: "contract-based deductive verification: macroexpand's loop against the step relation mexpStep (operands unevaluated, head looked up in the caller's scope, repeat until the head is no macro), is_macro_call against isMacroCall, defmacro/macroexpand cases of EVAL against the definition, and evaluation of every form going through macroexpand first in the same scope",
		DesignRef: "DESIGN.md §4 C12",
		Explain:   "partial: macro call = evaluation of its expansion in the caller's scope is proved; quasiquote/qq_loop are proved to implement the syntactic quasiquote transform; that evaluating the transformed form yields the substituted template is not proved",
		Run:       runC12,
	})
	register(&Property{
		ID: "C18", Level: "proof",
		Technique: "contract-based deductive verification: the same step relation proved for EVAL, eval_ast, do, macroexpand WITHOUT the precondition Stepper == nil (callback under a field contract: returns a command, leaves the interpreter state alone)",
		DesignRef: "DESIGN.md §4 C18",
		Explain:   "with any callback and any command sequence each EVAL activation satisfies the same definition as without; covers the forms covered by C01",
		Run:       runC18,
	})
	register(&Property{
		ID: "C03", Level: "other",
		Technique: "contract-based deductive verification of the transport of thrown objects: throw, lisperror.NewLispError, LispError.ErrorValue against thrownOf; EVAL's re-positioning of builtin errors keeps the thrown object (clause of the step relation); the try form against its definition as a decision tree with cut lemmas asserted after the body has run",
		DesignRef: "DESIGN.md §4 C03",
		Explain:   "the object a catch clause receives is unchanged by throw, by re-positioning and by propagation through EVAL/eval_ast/do/macroexpand/Apply (both tiers); the try form against its definition (body, handler once in a child scope binding the thrown object, finally once in the try's scope, arity errors), also in both tiers (about 200 s; the other evaluator properties use the full try relation in their thorough tier only)",
		Run:       runC03,
	})
}

// the scope layer under concrete contracts: lookups walk the chain innermost first, def writes the
// given scope only, parameter binding (positional, & rest, arity errors)
var envRoots = []string{"(*env.Env).Find", "(*env.Env).FindNT", "(*env.Env).Get", "(*env.Env).GetNT", "(*env.Env).Set", "(*env.Env).SetNT",
	"env._newSubordinateEnv", "env._newSubordinateEnvWithBinds", "env.NewSubordinateEnv", "env.NewSubordinateEnvWithBinds"}

func runC01(c *CheckCtx) {
	jobs := c.evalJobs(evalRoots)
	jobs = append(jobs, c.jobsFor(envRoots, func(f *ssa.Function) *Job {
		return &Job{Fn: f, PanicMode: "ignore", NoTimeouts: true, LockMode: true}
	})...)
	c.runJobs(jobs, func(o *Obligation) bool {
		if strings.HasPrefix(o.Fn, "env.") || strings.HasPrefix(o.Fn, "(*env.") {
			return o.Kind == "post" || o.Kind == "decreases"
		}
		if !keepEval(o) {
			return false
		}
		return c.evalCaseOf(o.Pos) != "try"
	})
	c.evalAssumptions()
}

func runC08(c *CheckCtx) {
	jobs := c.evalJobs([]string{"lisp.EVAL"})
	c.runJobs(jobs, func(o *Obligation) bool {
		return o.Kind == "tco" || (o.Kind == "step" && strings.Contains(o.Name, "/step/continue@"))
	})
	c.evalAssumptions()
	c.assumptions["a Go for-loop iteration allocates no stack frame (language semantics)"] = true
	c.assumptions["Stepper == nil: with a debugger installed EVAL recurses on purpose (mal.go, end of the loop)"] = true
}

func runC12(c *CheckCtx) {
	jobs := c.evalJobs([]string{"lisp.EVAL", "lisp.macroexpand", "lisp.is_macro_call", "types.Apply", "lisp.quasiquote", "lisp.qq_loop", "lisp.starts_with"})
	c.runJobs(jobs, func(o *Obligation) bool {
		if !keepEval(o) {
			return false
		}
		if o.Fn != "lisp.EVAL" {
			return true
		}
		switch c.evalCaseOf(o.Pos) {
		case "defmacro", "macroexpand", "quasiquote", "quasiquoteexpand", "prologue", "dispatch":
			return true
		}
		return false
	})
	c.evalAssumptions()
}

// deferredOutcomeStores: stores made by functions deferred in f (closures) into f's own named
// results: the deferred reports of the debugger section may read the outcome, not replace it.
func deferredOutcomeStores(f *ssa.Function) []ssa.Instruction {
	named := map[ssa.Value]bool{}
	isResult := func(al *ssa.Alloc) bool {
		for i := 0; al.Comment != "" && i < f.Signature.Results().Len(); i++ {
			if n := f.Signature.Results().At(i).Name(); n != "" && n == al.Comment {
				return true
			}
		}
		return false
	}
	for _, l := range f.Locals {
		if isResult(l) {
			named[l] = true
		}
	}
	for _, b := range f.Blocks {
		// (captured results are heap cells: not among the Locals)
		for _, in := range b.Instrs {
			if al, ok := in.(*ssa.Alloc); ok && isResult(al) {
				named[al] = true
			}
		}
	}
	var out []ssa.Instruction
	for _, b := range f.Blocks {
		for _, in := range b.Instrs {
			d, ok := in.(*ssa.Defer)
			if !ok {
				continue
			}
			mc, ok := d.Call.Value.(*ssa.MakeClosure)
			if !ok {
				continue
			}
			fn := mc.Fn.(*ssa.Function)
			for i, bnd := range mc.Bindings {
				if !named[bnd] || i >= len(fn.FreeVars) {
					continue
				}
				fv := fn.FreeVars[i]
				for _, fb := range fn.Blocks {
					for _, fin := range fb.Instrs {
						if st, ok := fin.(*ssa.Store); ok && st.Addr == ssa.Value(fv) {
							out = append(out, fin)
						}
					}
				}
			}
		}
	}
	return out
}

func runC18(c *CheckCtx) {
	jobs := c.evalJobs([]string{"lisp.EVAL", "lisp.eval_ast", "lisp.do", "lisp.macroexpand"})
	for _, j := range jobs {
		if fnName(j.Fn) != "lisp.EVAL" {
			continue
		}
		f := j.Fn
		prev := j.Setup
		j.Setup = func(tr *Tr, a *Act, st *State, args []Term) {
			if prev != nil {
				prev(tr, a, st, args)
			}
			// frame of the debugger's deferred reports: they leave EVAL's value and error alone
			// (the step relation identifies errors up to re-positioning, so a re-wrapped error
			// would otherwise go unnoticed)
			stores := deferredOutcomeStores(f)
			fname := fnName(f)
			if len(stores) == 0 {
				loc, _ := a.srcLine(f.Pos())
				tr.obls = append(tr.obls, &Obligation{Name: fname + "/stepper/deferred-reports-leave-the-outcome-alone#1", Kind: "step", Fn: fname, Pos: loc,
					Src: "no function deferred by EVAL assigns EVAL's named results", Guard: "true", Goal: "true"})
			}
			for i, sin := range stores {
				loc, src := a.srcLine(sin.Pos())
				tr.obls = append(tr.obls, &Obligation{Name: fmt.Sprintf("%s/stepper/deferred-reports-leave-the-outcome-alone/«%s»#%d", fname, normSrc(src), i+1), Kind: "step", Fn: fname, Pos: loc,
					Src: "no function deferred by EVAL assigns EVAL's named results", Guard: "true", Goal: "false"})
			}
		}
	}
	c.runJobs(jobs, func(o *Obligation) bool {
		return keepEval(o) && c.evalCaseOf(o.Pos) != "try"
	})
	c.evalAssumptions()
	c.assumptions["A-STEPPER: the callback returns one of the four commands and does not modify scopes or forms (field contract lisp.Stepper); PRINT and fmt.Println in the debugger's deferred reports have no effect on the world"] = true
}

func runC03(c *CheckCtx) {
	// errors must come out of macro expansion, element evaluation, do and Apply as they went in
	jobs := c.evalJobs([]string{"lisp.EVAL", "lisp.macroexpand", "lisp.eval_ast", "lisp.do", "types.Apply", "lisperror.NewLispError", "(lisperror.LispError).ErrorValue", "lib/core.throw"})
	c.runJobs(jobs, func(o *Obligation) bool {
		if o.Fn != "lisp.EVAL" {
			return o.Kind == "post" || o.Kind == "step"
		}
		if !keepEval(o) {
			return false
		}
		switch c.evalCaseOf(o.Pos) {
		case "try", "apply":
			return true
		}
		return false
	})
	c.evalAssumptions()
	c.assumptions["errors.Is reachability of wrapped Go errors (fmt.Errorf %w in lib/call and NewGoError) is not modelled"] = true
}

// ---------------------------------------------------------------------------
// C16: incomplete input is told apart from malformed input (token level)

func init() {
	register(&Property{
		ID: "C16", Level: "proof",
		Technique: "contract-based deductive verification: the recursive-descent reader functions against a token-level grammar of result classes (abstract rfC/rfP for one form with a checked one-step definition rfStep; recursive rlC/rlP for the rest of a bracketed sequence, carried by a loop invariant), error messages modelled through errors.New(s).Error() == s, and repl.multiLine against the same message set",
		DesignRef: "DESIGN.md §4 C16",
		Explain:   "for every token array: read_form/read_list/read_vector/read_hash_map/read_set/read_external return the class the grammar prescribes: the distinguished 'expected <closer>, got EOF' error exactly when the tokens run out inside a bracket, naming that (innermost) bracket's closer and passed on unchanged by every enclosing form; stray closers, malformed atoms, odd maps are a different class; multiLine is true exactly for the five distinguished messages",
		Run:       runC16,
	})
}

func runC16(c *CheckCtx) {
	names := []string{"reader.read_form", "reader.read_list", "reader.read_vector", "reader.read_hash_map", "reader.read_set", "reader.read_external",
		"reader.read_atom", "reader.read_placeholder", "(*reader.tokenReader).peek", "(*reader.tokenReader).next",
		"types.NewHashMap", "types.NewSet", "types.GetSlice", "lisperror.NewLispError", "repl.multiLine", "reader.Read_str", "reader.tokenize", "lisp.READ"}
	jobs := c.jobsFor(names, func(f *ssa.Function) *Job {
		return &Job{Fn: f, PanicMode: "ignore"}
	})
	c.runJobs(jobs, func(o *Obligation) bool {
		return o.Kind == "post" || o.Kind == "assert" || strings.HasPrefix(o.Kind, "frame")
	})
	// the grammar itself against the statement (bounded, spec level)
	maxLen := 6
	if c.tier == "thorough" {
		maxLen = 7
	}
	n, fails := c16Lemma(maxLen)
	c.extra["spec_lemma"] = map[string]any{
		"what":       "bounded check of the SPECIFICATION (not of the code): the grammar of result classes transcribed from rfStep/rlC agrees with the statement's characterisation (completable by closers => EOF class of the innermost closer; complete => accepted; unmatched/surplus closer or several expressions => other class; never accepts an incomplete text) computed by an independent stack recogniser",
		"sequences":  n,
		"max_length": maxLen,
		"alphabet":   "( ) [ ] { } #{ « » ' ^ atom",
		"mismatches": len(fails),
	}
	for _, f := range fails {
		c.machineryErrors = append(c.machineryErrors, "C16 grammar disagrees with the statement: "+f)
	}
	c.assumptions["A-SCAN: text -> tokens is the third-party scanner; brackets inside strings, raw strings and comments are not tokens (assumed)"] = true
	c.assumptions["A-FIX(reader): rfC/rfP are the class and end position of reading one form; recursive calls are assumed to return them, each function is checked for one unfolding (rfStep)"] = true
	c.assumptions["the statement's characterisation is checked against the grammar rfStep/rlC for every token sequence up to length 6 (7 in the thorough tier) over the bracket alphabet (bounded, spec level; the Go transcription of the grammar in c16lemma.go mirrors the contract file by hand)"] = true
	c.assumptions["Read_str: every return (post-conditions over its local token array) gives an EOF-class error only when that is the grammar's class for the whole token array, and a value only when one form covers all tokens; tokenize never returns an EOF-class error (fmt.Errorf with a literal format starts with the format's text); READ returns Read_str's outcome for the same text, cursor and an empty placeholder table (Read_str assumed to be a function of those: readStrE/readStrV, fresh allocations aside); Go-constructor forms («…») are classified only while their bracket is open (a constructor may return any error)"] = true
	c.assumptions["tokens are never modified after tokenize (preserves clauses on the reader functions, assumed at call sites)"] = true
}

// ---------------------------------------------------------------------------
// C17: runtime errors point at the failing form (partial)

func init() {
	register(&Property{
		ID: "C17", Level: "other",
		Technique: "contract-based deductive verification of the position bookkeeping functions: lisperror.NewLispError (an error that carries a position keeps it; otherwise it gets the position of the reporting form), lisperror.GetPosition (the cursor of lists, vectors, symbols, maps, sets), Position.Copy/Close (begin from the receiver, end from the closing token), tokenReader.peek/next (the cursor handed out is the token's), tokenize (every token's cursor begins and ends on the scanner's line for that token and carries the module), call-site obligations that Read_str hands its text to tokenize and READ its text and cursor to Read_str unchanged",
		DesignRef: "DESIGN.md §4 C17",
		Explain:   "partial: the functions through which every error position passes are proved against their specification; every NewLispError call of EVAL/eval_ast reports at the current form, its first operand, the evaluated call or nil; that the reader's list cursors span first to last token, that the current form is the smallest one containing the fault, token rows = text lines (scanner) and library macros are not covered",
		Run:       runC17,
	})
}

func runC17(c *CheckCtx) {
	names := []string{"lisperror.NewLispError", "lisperror.GetPosition", "(*types.Position).Copy", "(*types.Position).Close",
		"(*reader.tokenReader).peek", "(*reader.tokenReader).next", "reader.tokenize", "reader.Read_str", "lisp.READ", "lisp.EVAL", "lisp.eval_ast"}
	// rows and columns are counted by the scanner on the text it is given: the text (and, from READ,
	// the cursor naming the module) must reach the tokenizer as the caller passed it
	savedHook := c.eng.hooks.onCallArgs
	defer func() { c.eng.hooks.onCallArgs = savedHook }()
	c.eng.hooks.onCallArgs = func(a *Act, st *State, cc *ssa.CallCommon, args []Term, pos token.Pos) {
		sc := cc.StaticCallee()
		if sc == nil || a.parent != nil {
			return
		}
		root := a.tr.rootAct
		var goal Term
		if rn := fnName(root.fn); (rn == "lisp.EVAL" || rn == "lisp.eval_ast") && fnName(sc) == "lisperror.NewLispError" && len(args) >= 2 && a.contract != nil {
			// the form an evaluator error is positioned at is the form being evaluated (the variable
			// ast as it stands at that point), its first operand, the evaluated call, or nothing
			alts := []Term{Eq(args[1], "VNil")}
			for _, name := range []string{"ast", "a1", "el"} {
				var errs []string
				keep := len(a.tr.errAt)
				e := &specEnv{a: a, tr: a.tr, pkg: a.contract.pkg, st: st, old: a.entryState, vars: map[string]specVal{}, errs: &errs, preferLocals: true, atLi: a.innermostLoop(a.curBlock)}
				v := e.eval(&ast.Ident{Name: name})
				a.tr.errAt = a.tr.errAt[:keep]
				if len(errs) == 0 && v.t != "" {
					alts = append(alts, Eq(args[1], v.t))
				}
			}
			loc, src := a.srcLine(pos)
			base := fmt.Sprintf("%s/position/reported-at-the-current-form/«%s»", rn, normSrc(src))
			a.tr.oblCount[base]++
			a.tr.obls = append(a.tr.obls, &Obligation{Name: fmt.Sprintf("%s#%d", base, a.tr.oblCount[base]), Kind: "position", Fn: rn, Pos: loc,
				Src: "the reporting form is the current form, its first operand, the evaluated call, or nil", Guard: st.reach, Goal: Or(alts...)})
			return
		}
		switch {
		case fnName(root.fn) == "reader.Read_str" && fnName(sc) == "reader.tokenize" && len(args) >= 1:
			goal = Eq(args[0], root.args[0])
		case fnName(root.fn) == "lisp.READ" && fnName(sc) == "reader.Read_str" && len(args) >= 2:
			goal = And(Eq(args[0], root.args[0]), Eq(args[1], root.args[1]))
		default:
			return
		}
		loc, src := a.srcLine(pos)
		fname := fnName(root.fn)
		base := fmt.Sprintf("%s/position/text-reaches-the-tokenizer-unchanged/«%s»", fname, normSrc(src))
		a.tr.oblCount[base]++
		a.tr.obls = append(a.tr.obls, &Obligation{Name: fmt.Sprintf("%s#%d", base, a.tr.oblCount[base]), Kind: "position", Fn: fname, Pos: loc,
			Src: "the text (and cursor) handed on is the caller's", Guard: st.reach, Goal: goal})
	}
	jobs := c.jobsFor(names, func(f *ssa.Function) *Job {
		return &Job{Fn: f, PanicMode: "ignore"}
	})
	c.runJobs(jobs, func(o *Obligation) bool { return o.Kind == "post" || o.Kind == "position" })
	c.assumptions["A-SCAN: token rows are text lines (third-party scanner); the scanner is modelled as a state machine whose Pos/TokenText are functions of the number of Scan calls"] = true
	c.assumptions["not covered: spans of the lists built by read_list (attempted, dropped: the loop-carried cursor facts did not discharge), positions through library macros, that the current form is the smallest one containing the fault written in lisp"] = true
}

// ---------------------------------------------------------------------------
// C07: cancellation (safety skeleton only)

func init() {
	register(&Property{
		ID: "C07", Level: "other",
		Technique: "contract-based deductive verification of the safety skeleton: an assertion at the top of EVAL's loop body (past the poll the context is nil or not done, on every iteration and for every form), obligation ctx/nested-call-gets-own-or-derived-context at every call from EVAL, eval_ast, do, macroexpand and Apply that passes a context on (it is the caller's own or one derived from it), and ctx/blocking-wait-has-done-case on the context-taking blocking builtins (sleep, Future.Deref): one alternative of their select is a receive from the caller's ctx.Done()",
		DesignRef: "DESIGN.md §4 C07",
		Explain:   "partial: the time bound itself (returns within a bound independent of the program) is not decidable by contracts: there is no clock and no blocking semantics in the verifier. Proved: no iteration of the evaluation loop proceeds with a context that was done when polled; the blocking builtins wait on the context among their alternatives",
		Run:       runC07,
	})
}

// waitsOnContext: f contains a blocking select one of whose cases receives from Done() of f's
// context parameter.
func waitsOnContext(f *ssa.Function) bool {
	for _, b := range f.Blocks {
		for _, in := range b.Instrs {
			sel, ok := in.(*ssa.Select)
			if !ok || !sel.Blocking {
				continue
			}
			for _, s := range sel.States {
				if s.Dir != types.RecvOnly {
					continue
				}
				call, ok := s.Chan.(*ssa.Call)
				if !ok || !call.Call.IsInvoke() || call.Call.Method.Name() != "Done" {
					continue
				}
				if p, ok := call.Call.Value.(*ssa.Parameter); ok && typeStr(p.Type()) == "context.Context" {
					return true
				}
			}
		}
	}
	return false
}

func runC07(c *CheckCtx) {
	// every context handed to a nested evaluation (or to a builtin) is the caller's own context or a
	// context derived from it (done whenever the caller's is)
	savedHook := c.eng.hooks.onCallArgs
	defer func() { c.eng.hooks.onCallArgs = savedHook }()
	c.eng.hooks.onCallArgs = func(a *Act, st *State, cc *ssa.CallCommon, args []Term, pos token.Pos) {
		sig, ok := cc.Value.Type().Underlying().(*types.Signature)
		if !ok || sig.Params().Len() == 0 || typeStr(sig.Params().At(0).Type()) != "context.Context" || len(args) == 0 {
			return
		}
		if sc := cc.StaticCallee(); sc != nil && sc.Pkg != nil && sc.Pkg.Pkg.Path() == "context" {
			return // deriving a context is not an evaluation
		}
		root := a.tr.rootAct
		if len(root.fn.Params) == 0 || typeStr(root.fn.Params[0].Type()) != "context.Context" {
			return
		}
		own := root.args[0]
		a.tr.eng.declareOnce(a.tr, "ctx_parent", "(declare-fun ctx_parent (Val) Val)")
		goal := Or(Eq(args[0], own), Eq(app("ctx_parent", args[0]), own))
		loc, src := a.srcLine(pos)
		fname := fnName(root.fn)
		base := fmt.Sprintf("%s/ctx/nested-call-gets-own-or-derived-context/«%s»", fname, normSrc(src))
		a.tr.oblCount[base]++
		a.tr.obls = append(a.tr.obls, &Obligation{Name: fmt.Sprintf("%s#%d", base, a.tr.oblCount[base]), Kind: "ctx", Fn: fname, Pos: loc,
			Src: "the context passed on is the caller's or one derived from it", Guard: st.reach, Goal: goal})
	}
	jobs := c.jobsFor([]string{"lisp.EVAL", "lisp.eval_ast", "lisp.do", "lisp.macroexpand", "types.Apply", "lib/core.sleep", "(*lib/concurrent.Future).Deref"}, func(f *ssa.Function) *Job {
		j := &Job{Fn: f, PanicMode: "ignore"}
		if f.Name() == "sleep" || f.Name() == "Deref" {
			j.Setup = func(tr *Tr, a *Act, st *State, args []Term) {
				goal := "false"
				if waitsOnContext(f) {
					goal = "true"
				}
				loc, _ := a.srcLine(f.Pos())
				fname := fnName(f)
				tr.obls = append(tr.obls, &Obligation{Name: fname + "/ctx/blocking-wait-has-done-case#1", Kind: "ctx", Fn: fname, Pos: loc,
					Src: "the function blocks in a select one of whose cases is a receive from its context's Done()", Guard: "true", Goal: goal})
			}
		}
		return j
	})
	c.runJobs(jobs, func(o *Obligation) bool {
		return o.Kind == "ctx" || (o.Kind == "assert" && strings.Contains(o.Src, "done(ctx)"))
	})
	c.assumptions["no clock and no blocking semantics: 'promptly' is not decided; a context is an abstract value with a done predicate, a receive from ctx.Done() succeeds exactly when it is done, a non-blocking select takes that case when it is ready"] = true
	c.assumptions["a context derived with context.WithTimeout/WithCancel is done whenever its parent is (stub fact ctx_parent)"] = true
	c.assumptions["futures: that the body of a future runs under a context derived from its creator's is not checked here"] = true
}
