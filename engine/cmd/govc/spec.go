package main

// Specification expressions -> SMT terms; applying and checking contracts.

import (
	"os"
	"fmt"
	"go/ast"
	"go/constant"
	"go/token"
	"go/types"
	"strconv"
	"strings"

	"golang.org/x/tools/go/packages"
	"golang.org/x/tools/go/ssa"
)

type specVal struct {
	t   Term
	typ types.Type // nil for untyped nil
}

var (
	tBool   = types.Typ[types.Bool]
	tInt    = types.Typ[types.Int]
	tString = types.Typ[types.String]
)

type specEnv struct {
	a    *Act
	tr   *Tr
	pkg  *packages.Package
	st   *State // heap used for reads
	old  *State // heap for old(...)
	vars map[string]specVal
	li   *loopInfo
	errs *[]string
	depth int
	preferLocals bool
	atLi *loopInfo // innermost loop around the point of an at-clause (for athead)
	visMode string
	inlineSpecs bool
}

func (e *specEnv) errf(format string, args ...any) {
	msg := fmt.Sprintf(format, args...)
	*e.errs = append(*e.errs, msg)
	if e.tr != nil {
		// the clause being evaluated belongs to the obligation created next
		e.tr.errAt = append(e.tr.errAt, len(e.tr.obls))
	}
}

func (e *specEnv) with(vars map[string]specVal) *specEnv {
	n := *e
	n.vars = map[string]specVal{}
	for k, v := range e.vars {
		n.vars[k] = v
	}
	for k, v := range vars {
		n.vars[k] = v
	}
	return &n
}

func (e *specEnv) sorts() *Sorts { return e.tr.eng.sorts }

func (e *specEnv) evalBool(x ast.Expr) Term {
	v := e.eval(x)
	if v.typ == nil || e.sorts().sortOf(v.typ) != "Bool" {
		e.errf("expected boolean: %s", types.ExprString(x))
		return "true"
	}
	return v.t
}

func (e *specEnv) eval(x ast.Expr) specVal {
	tr := e.tr; _ = tr
	switch x := x.(type) {
	case *ast.ParenExpr:
		return e.eval(x.X)
	case *ast.BasicLit:
		switch x.Kind {
		case token.INT:
			n, _ := strconv.ParseInt(x.Value, 0, 64)
			return specVal{IntLit(n), tInt}
		case token.STRING:
			s, _ := strconv.Unquote(x.Value)
			return specVal{StrLit(s), tString}
		}
	case *ast.Ident:
		switch x.Name {
		case "true":
			return specVal{"true", tBool}
		case "false":
			return specVal{"false", tBool}
		case "nil":
			return specVal{"VNil", nil}
		}
		if v, ok := e.vars[x.Name]; ok {
			return v
		}
		if e.a != nil {
			if v, ok := e.a.lookupLocal(e, x.Name); ok {
				return v
			}
		}
		if e.pkg != nil {
			if c, ok := e.pkg.Types.Scope().Lookup(x.Name).(*types.Const); ok {
				return e.constVal(c)
			}
			if sp := tr.eng.spkgs[e.pkg.PkgPath]; sp != nil {
				if g, ok := sp.Members[x.Name].(*ssa.Global); ok {
					pt := g.Type().Underlying().(*types.Pointer).Elem()
					c := tr.cellComp(pt)
					return specVal{tr.read(tr.heapOf(e.st, c), tr.eng.globalAddr(g)), pt}
				}
			}
		}
		e.errf("unknown name %s", x.Name)
		return specVal{"0", tInt}
	case *ast.UnaryExpr:
		v := e.eval(x.X)
		switch x.Op {
		case token.NOT:
			return specVal{Not(v.t), tBool}
		case token.SUB:
			return specVal{app("-", v.t), tInt}
		}
	case *ast.BinaryExpr:
		return e.binary(x)
	case *ast.SelectorExpr:
		if id, ok := x.X.(*ast.Ident); ok {
			if _, isVar := e.vars[id.Name]; !isVar && e.pkg != nil {
				for _, ip := range e.pkg.Imports {
					if ip.Name == id.Name {
						if c, ok := ip.Types.Scope().Lookup(x.Sel.Name).(*types.Const); ok {
							return e.constVal(c)
						}
					}
				}
			}
		}
		v := e.eval(x.X)
		return e.field(v, x.Sel.Name)
	case *ast.IndexExpr:
		v := e.eval(x.X)
		i := e.eval(x.Index)
		return e.index(v, i)
	case *ast.SliceExpr:
		v := e.eval(x.X)
		lo, hi := Term("0"), Term("")
		if x.Low != nil {
			lo = e.eval(x.Low).t
		}
		if v.typ != nil && isString(v.typ) {
			if x.High != nil {
				hi = e.eval(x.High).t
			} else {
				hi = app("str.len", v.t)
			}
			return specVal{app("str.substr", v.t, lo, app("-", hi, lo)), tString}
		}
		if x.High != nil {
			hi = e.eval(x.High).t
		} else {
			hi = app("s_len", v.t)
		}
		return specVal{app("mkSlice", app("s_arr", v.t), app("+", app("s_off", v.t), lo), app("-", hi, lo), app("-", app("s_cap", v.t), lo)), v.typ}
	case *ast.TypeAssertExpr:
		v := e.eval(x.X)
		t := lookupTypeName(e.pkg, x.Type)
		if t == nil {
			e.errf("unknown type %s", types.ExprString(x.Type))
			return v
		}
		if isInterface(t) {
			return specVal{v.t, t}
		}
		return specVal{e.sorts().unVal(t, v.t), t}
	case *ast.CallExpr:
		return e.call(x)
	case *ast.CompositeLit:
		t := lookupTypeName(e.pkg, x.Type)
		if t == nil {
			e.errf("unknown type %s", types.ExprString(x.Type))
			break
		}
		stt, ok := t.Underlying().(*types.Struct)
		si := e.sorts().structOf(t)
		if !ok || si == nil {
			e.errf("composite literal of non-struct type %s", typeStr(t))
			break
		}
		args := make([]Term, stt.NumFields())
		for i := range args {
			args[i] = e.sorts().zero(stt.Field(i).Type())
		}
		for _, el := range x.Elts {
			kv, ok := el.(*ast.KeyValueExpr)
			if !ok {
				e.errf("composite literal needs field names")
				continue
			}
			name := kv.Key.(*ast.Ident).Name
			for i := 0; i < stt.NumFields(); i++ {
				if stt.Field(i).Name() == name {
					v := e.eval(kv.Value)
					if isInterface(stt.Field(i).Type()) {
						args[i] = e.toVal(v)
					} else if v.typ == nil {
						args[i] = e.sorts().zero(stt.Field(i).Type())
					} else {
						args[i] = v.t
					}
				}
			}
		}
		return specVal{app(si.ctor, args...), t}
	}
	e.errf("unsupported spec expression %s (%T)", types.ExprString(x), x)
	return specVal{"0", tInt}
}

func (e *specEnv) toVal(v specVal) Term {
	if v.typ == nil {
		return "VNil"
	}
	return e.sorts().mkVal(v.typ, v.t)
}

func (e *specEnv) binary(x *ast.BinaryExpr) specVal {
	l := e.eval(x.X)
	switch x.Op {
	case token.LAND:
		return specVal{And(l.t, e.eval(x.Y).t), tBool}
	case token.LOR:
		return specVal{Or(l.t, e.eval(x.Y).t), tBool}
	}
	r := e.eval(x.Y)
	switch x.Op {
	case token.EQL, token.NEQ:
		var t Term
		switch {
		case l.typ == nil && r.typ == nil:
			t = "true"
		case l.typ == nil:
			t = e.isNil(r)
		case r.typ == nil:
			t = e.isNil(l)
		case isInterface(l.typ) != isInterface(r.typ):
			t = Eq(e.toVal(l), e.toVal(r))
		default:
			t = Eq(l.t, r.t)
		}
		if x.Op == token.NEQ {
			t = Not(t)
		}
		return specVal{t, tBool}
	case token.LSS, token.LEQ, token.GTR, token.GEQ:
		op := map[token.Token]string{token.LSS: "<", token.LEQ: "<=", token.GTR: ">", token.GEQ: ">="}[x.Op]
		return specVal{app(op, l.t, r.t), tBool}
	case token.ADD:
		if l.typ != nil && isString(l.typ) {
			return specVal{app("str.++", l.t, r.t), tString}
		}
		return specVal{app("+", l.t, r.t), tInt}
	case token.SUB:
		return specVal{app("-", l.t, r.t), tInt}
	case token.MUL:
		return specVal{app("*", l.t, r.t), tInt}
	case token.QUO:
		return specVal{goDiv(l.t, r.t), tInt}
	case token.REM:
		return specVal{goRem(l.t, r.t), tInt}
	}
	e.errf("unsupported operator %s", x.Op)
	return specVal{"0", tInt}
}

func (e *specEnv) isNil(v specVal) Term {
	switch v.typ.Underlying().(type) {
	case *types.Slice:
		return Eq(app("s_arr", v.t), "0")
	case *types.Interface:
		return Eq(v.t, "VNil")
	default:
		return Eq(v.t, e.sorts().zero(v.typ))
	}
}

func (e *specEnv) field(v specVal, name string) specVal {
	if v.typ == nil {
		e.errf("field %s of nil", name)
		return specVal{"0", tInt}
	}
	t := v.typ
	val := v.t
	if pt, ok := t.Underlying().(*types.Pointer); ok {
		// dereference through the heap
		t = pt.Elem()
		val = e.tr.read(e.tr.heapOf(e.st, e.tr.cellComp(t)), val)
	}
	stt, ok := t.Underlying().(*types.Struct)
	if !ok {
		e.errf("field %s of non-struct %s", name, typeStr(t))
		return specVal{"0", tInt}
	}
	si := e.sorts().structOf(t)
	for i := 0; i < stt.NumFields(); i++ {
		if stt.Field(i).Name() == name {
			if si == nil {
				e.errf("field %s of opaque struct %s", name, typeStr(t))
				return specVal{"0", tInt}
			}
			return specVal{app(si.fields[i], val), stt.Field(i).Type()}
		}
	}
	e.errf("no field %s in %s", name, typeStr(t))
	return specVal{"0", tInt}
}

func (e *specEnv) index(v, i specVal) specVal {
	if v.typ == nil {
		e.errf("index of nil")
		return specVal{"0", tInt}
	}
	switch u := v.typ.Underlying().(type) {
	case *types.Slice:
		c := e.tr.elemComp(u.Elem())
		return specVal{e.tr.read(e.tr.heapOf(e.st, c), app("s_arr", v.t), app("+", app("s_off", v.t), i.t)), u.Elem()}
	case *types.Map:
		dom, val, _ := e.tr.mapComps(u)
		present := And(Not(Eq(v.t, "0")), e.tr.read(e.tr.heapOf(e.st, dom), v.t, i.t))
		return specVal{Ite(present, e.tr.read(e.tr.heapOf(e.st, val), v.t, i.t), e.sorts().zero(u.Elem())), u.Elem()}
	case *types.Basic:
		return specVal{app("str.to_code", app("str.at", v.t, i.t)), tInt}
	}
	e.errf("cannot index %s", typeStr(v.typ))
	return specVal{"0", tInt}
}

func (e *specEnv) call(x *ast.CallExpr) specVal {
	tr := e.tr
	name := ""
	switch f := x.Fun.(type) {
	case *ast.Ident:
		name = f.Name
	default:
		e.errf("unsupported call %s", types.ExprString(x))
		return specVal{"0", tInt}
	}
	arg := func(i int) specVal { return e.eval(x.Args[i]) }
	need := func(n int) bool {
		if len(x.Args) != n {
			e.errf("%s expects %d arguments", name, n)
			return false
		}
		return true
	}
	switch name {
	case "len":
		if !need(1) {
			break
		}
		v := arg(0)
		switch u := v.typ.Underlying().(type) {
		case *types.Slice:
			return specVal{app("s_len", v.t), tInt}
		case *types.Basic:
			return specVal{app("str.len", v.t), tInt}
		case *types.Map:
			_, _, ln := tr.mapComps(u)
			l := Ite(Eq(v.t, "0"), "0", tr.read(tr.heapOf(e.st, ln), v.t))
			if !tr.openTerm(l) {
				tr.cardLemma(e.st, u, v.t, l)
			}
			return specVal{l, tInt}
		}
		e.errf("len of %s", typeStr(v.typ))
	case "cap":
		return specVal{app("s_cap", arg(0).t), tInt}
	case "arr":
		return specVal{app("s_arr", arg(0).t), tInt}
	case "off":
		return specVal{app("s_off", arg(0).t), tInt}
	case "old":
		n := *e
		n.st = e.old
		return n.eval(x.Args[0])
	case "athead":
		// value of the expression at the head of the innermost enclosing loop, in this iteration
		li := e.li
		if li == nil {
			li = e.atLi
		}
		if li == nil || li.headSt == nil || e.a == nil || len(x.Args) != 1 {
			e.errf("athead() outside a loop (li=%v atLi=%v a=%v)", e.li != nil, e.atLi != nil, e.a != nil)
			break
		}
		n := *e
		n.st = li.headSt
		n.li = li
		n.preferLocals = false
		return n.eval(x.Args[0])
	case "atentry":
		// value of the expression when the enclosing loop was entered
		if e.li == nil || e.li.preSt == nil || e.a == nil {
			e.errf("atentry() outside a loop invariant")
			break
		}
		saved := map[*ssa.Phi]Term{}
		for phi, t := range e.li.phiEntry {
			if old, ok := e.a.phiOverride[phi]; ok {
				saved[phi] = old
			}
			e.a.phiOverride[phi] = t
		}
		n := *e
		n.st = e.li.preSt
		n.visMode = "init"
		v := n.eval(x.Args[0])
		for phi := range e.li.phiEntry {
			if old, ok := saved[phi]; ok {
				e.a.phiOverride[phi] = old
			} else {
				delete(e.a.phiOverride, phi)
			}
		}
		return v
	case "tail":
		// tail(b): b, marking the case as one whose outcome is that of a form in tail position
		if len(x.Args) == 1 {
			return specVal{e.evalBool(x.Args[0]), tBool}
		}
	case "implies":
		if need(2) {
			return specVal{Implies(e.evalBool(x.Args[0]), e.evalBool(x.Args[1])), tBool}
		}
	case "iff":
		if need(2) {
			return specVal{Eq(e.evalBool(x.Args[0]), e.evalBool(x.Args[1])), tBool}
		}
	case "ite":
		if need(3) {
			c := e.evalBool(x.Args[0])
			a, b := arg(1), arg(2)
			typ := a.typ
			if typ == nil {
				typ = b.typ
			}
			if a.typ == nil && b.typ != nil {
				a = specVal{e.sorts().zero(b.typ), b.typ}
			}
			if b.typ == nil && a.typ != nil {
				b = specVal{e.sorts().zero(a.typ), a.typ}
			}
			if a.typ != nil && b.typ != nil && isInterface(a.typ) != isInterface(b.typ) {
				return specVal{Ite(c, e.toVal(a), e.toVal(b)), types.NewInterfaceType(nil, nil)}
			}
			return specVal{Ite(c, a.t, b.t), typ}
		}
	case "forall", "exists":
		// forall(j, lo, hi, body): lo <= j < hi
		if !need(4) {
			break
		}
		id, ok := x.Args[0].(*ast.Ident)
		if !ok {
			e.errf("forall: first argument must be a name")
			break
		}
		tr.fresh++
		bv := fmt.Sprintf("q_%s_%d", id.Name, tr.fresh)
		lo, hi := arg(1), arg(2)
		tr.boundVars = append(tr.boundVars, bv)
		body := e.with(map[string]specVal{id.Name: {bv, tInt}}).evalBool(x.Args[3])
		tr.boundVars = tr.boundVars[:len(tr.boundVars)-1]
		rng := And(app("<=", lo.t, bv), app("<", bv, hi.t))
		if name == "forall" {
			return specVal{fmt.Sprintf("(forall ((%s Int)) %s)", bv, Implies(rng, body)), tBool}
		}
		return specVal{fmt.Sprintf("(exists ((%s Int)) %s)", bv, And(rng, body)), tBool}
	case "forallkey", "existskey":
		// forallkey(k, body): k ranges over all strings
		if !need(2) {
			break
		}
		id := x.Args[0].(*ast.Ident)
		tr.fresh++
		bv := fmt.Sprintf("q_%s_%d", id.Name, tr.fresh)
		tr.boundVars = append(tr.boundVars, bv)
		body := e.with(map[string]specVal{id.Name: {bv, tString}}).evalBool(x.Args[1])
		tr.boundVars = tr.boundVars[:len(tr.boundVars)-1]
		q := "forall"
		if name == "existskey" {
			q = "exists"
		}
		return specVal{fmt.Sprintf("(%s ((%s String)) %s)", q, bv, body), tBool}
	case "forallval":
		if !need(2) {
			break
		}
		id := x.Args[0].(*ast.Ident)
		tr.fresh++
		bv := fmt.Sprintf("q_%s_%d", id.Name, tr.fresh)
		tr.boundVars = append(tr.boundVars, bv)
		body := e.with(map[string]specVal{id.Name: {bv, types.NewInterfaceType(nil, nil)}}).evalBool(x.Args[1])
		tr.boundVars = tr.boundVars[:len(tr.boundVars)-1]
		return specVal{fmt.Sprintf("(forall ((%s Val)) %s)", bv, body), tBool}
	case "let":
		// let(name, value, body)
		if need(3) {
			id := x.Args[0].(*ast.Ident)
			v := arg(1)
			return e.with(map[string]specVal{id.Name: v}).eval(x.Args[2])
		}
	case "is":
		if need(2) {
			v := arg(0)
			var t types.Type
			if bl, ok := x.Args[1].(*ast.BasicLit); ok && bl.Kind == token.STRING {
				src, _ := strconv.Unquote(bl.Value)
				t = tr.eng.contracts.resolveType(e.pkg, src, "spec", 0)
			} else {
				t = lookupTypeName(e.pkg, x.Args[1])
			}
			if t == nil {
				e.errf("unknown type %s", types.ExprString(x.Args[1]))
				break
			}
			if isInterface(t) {
				return specVal{app(e.sorts().implPred(t), v.t), tBool}
			}
			return specVal{e.sorts().isCtor(t, e.toVal(v)), tBool}
		}
	case "has":
		if need(2) {
			m, k := arg(0), arg(1)
			mt, ok := m.typ.Underlying().(*types.Map)
			if !ok {
				e.errf("has: not a map")
				break
			}
			dom, _, _ := tr.mapComps(mt)
			return specVal{And(Not(Eq(m.t, "0")), tr.read(tr.heapOf(e.st, dom), m.t, k.t)), tBool}
		}
	case "fresh":
		if need(1) {
			v := arg(0)
			id := v.t
			if _, ok := v.typ.Underlying().(*types.Slice); ok {
				id = app("s_arr", v.t)
			}
			return specVal{app(">", id, e.old.alloc), tBool}
		}
	case "allocated":
		if need(1) {
			v := arg(0)
			id := v.t
			if _, ok := v.typ.Underlying().(*types.Slice); ok {
				id = app("s_arr", v.t)
			}
			return specVal{app("<=", id, e.st.alloc), tBool}
		}
	case "val":
		// val(x): x as an interface value
		if need(1) {
			return specVal{e.toVal(arg(0)), types.NewInterfaceType(nil, nil)}
		}
	case "prefix":
		if need(2) {
			return specVal{app("str.prefixof", arg(0).t, arg(1).t), tBool}
		}
	case "suffix":
		if need(2) {
			return specVal{app("str.suffixof", arg(0).t, arg(1).t), tBool}
		}
	case "contains":
		if need(2) {
			return specVal{app("str.contains", arg(0).t, arg(1).t), tBool}
		}
	case "held", "heldW", "heldR", "unlocked":
		if need(1) {
			l := tr.lockState(e.st, arg(0).t)
			switch name {
			case "held":
				return specVal{Not(Eq(l, "0")), tBool}
			case "heldW":
				return specVal{Eq(l, "2"), tBool}
			case "heldR":
				return specVal{Eq(l, "1"), tBool}
			default:
				return specVal{Eq(l, "0"), tBool}
			}
		}
	case "min", "max":
		if need(2) {
			a, b := arg(0), arg(1)
			if name == "min" {
				return specVal{Ite(app("<=", a.t, b.t), a.t, b.t), tInt}
			}
			return specVal{Ite(app(">=", a.t, b.t), a.t, b.t), tInt}
		}
	case "sametype":
		if need(2) {
			return specVal{Eq(app("dynTypeId", e.toVal(arg(0))), app("dynTypeId", e.toVal(arg(1)))), tBool}
		}
	case "uncomparable":
		if need(1) {
			return specVal{app("uncmpV", e.toVal(arg(0))), tBool}
		}
	case "visited":
		if need(1) {
			k := arg(0)
			if e.li == nil {
				e.errf("visited() outside a loop invariant")
				break
			}
			switch e.visMode {
			case "init":
				return specVal{"false", tBool}
			case "back":
				if e.li.visBack != nil {
					return specVal{e.li.visBack(k.t), tBool}
				}
			default:
				if e.li.visHead != nil {
					return specVal{e.li.visHead(k.t), tBool}
				}
			}
			e.errf("visited(): loop is not a map range")
		}
	case "fieldaddr":
		if need(2) {
			v := arg(0)
			id, ok := x.Args[1].(*ast.Ident)
			pt, ok2 := v.typ.Underlying().(*types.Pointer)
			if !ok || !ok2 {
				e.errf("fieldaddr(ptr, FieldName)")
				break
			}
			stt, ok3 := pt.Elem().Underlying().(*types.Struct)
			if !ok3 {
				e.errf("fieldaddr: not a struct pointer")
				break
			}
			for i := 0; i < stt.NumFields(); i++ {
				if stt.Field(i).Name() == id.Name {
					fn := "fa_" + typeKey(pt.Elem()) + "_" + fmt.Sprint(i)
					tr.eng.declareOnce(tr, fn, fmt.Sprintf("(declare-fun %s (Int) Int)", fn))
					return specVal{app(fn, v.t), types.NewPointer(stt.Field(i).Type())}
				}
			}
			e.errf("fieldaddr: no field %s", id.Name)
		}
	case "visitedCount":
		if e.li == nil || e.li.visCountHead == "" {
			e.errf("visitedCount() outside a map range loop invariant")
			break
		}
		switch e.visMode {
		case "init":
			return specVal{"0", tInt}
		case "back":
			return specVal{app("+", e.li.visCountHead, "1"), tInt}
		}
		return specVal{e.li.visCountHead, tInt}
	case "errNew":
		tr.eng.declareOnce(tr, "errNewMarker", "(define-fun errNewMarker () Val (VOther 999999 0))")
		return specVal{"errNewMarker", types.Universe.Lookup("error").Type()}
	case "world":
		c := tr.comp("ghost:W", nil, "World", false)
		return specVal{tr.read(tr.heapOf(e.st, c)), tWorld}
	case "out":
		if need(3) {
			return specVal{app("mkOut", e.toVal(arg(0)), e.toVal(arg(1)), arg(2).t), tOutcome}
		}
	case "outV":
		if need(1) {
			return specVal{app("outV", arg(0).t), types.NewInterfaceType(nil, nil)}
		}
	case "outE":
		if need(1) {
			return specVal{app("outE", arg(0).t), types.NewInterfaceType(nil, nil)}
		}
	case "outW":
		if need(1) {
			return specVal{app("outW", arg(0).t), tWorld}
		}
	case "ghost":
		if need(1) {
			id, ok := x.Args[0].(*ast.Ident)
			if !ok {
				e.errf("ghost: expects a name")
				break
			}
			c := tr.comp("ghost:"+id.Name, nil, "Int", false)
			return specVal{tr.read(tr.heapOf(e.st, c)), tInt}
		}
	case "nolocks":
		return specVal{tr.noLocksHeld(e.st), tBool}
	case "done":
		if need(1) {
			return specVal{tr.ctxDone(arg(0).t), tBool}
		}
	default:
		if sf, ok := tr.eng.contracts.spec(name); ok {
			return e.applySpec(sf, x)
		}
		e.errf("unknown function %s", name)
	}
	return specVal{"0", tInt}
}

// applySpec: non-recursive spec functions are macros; recursive ones are
// uninterpreted symbols with a one-step unfolding instance at closed applications.
// GoalTree: a Boolean specification goal kept as its decision tree (ite nodes of relation
// bodies, spec relations inlined) so that the solver layer can decide one condition at a
// time instead of case-splitting over the whole relation.
type GoalTree struct {
	Cond Term
	A, B *GoalTree
	Leaf Term
	Tail bool // leaf of the form OUT == cont(...): the outcome is that of evaluating another form in tail position
}

// tailPaths: the path conditions under which a tail leaf is reached.
func (t *GoalTree) tailPaths(conds []Term, out *[]Term) {
	if t == nil {
		return
	}
	if t.A == nil {
		if t.Tail {
			*out = append(*out, And(conds...))
		}
		return
	}
	t.A.tailPaths(append(append([]Term{}, conds...), t.Cond), out)
	t.B.tailPaths(append(append([]Term{}, conds...), Not(t.Cond)), out)
}

func (t *GoalTree) leaves() int {
	if t == nil {
		return 0
	}
	if t.A == nil {
		return 1
	}
	return t.A.leaves() + t.B.leaves()
}

func treeish(tr *Tr, x ast.Expr, depth int) bool {
	if p, ok := x.(*ast.ParenExpr); ok {
		return treeish(tr, p.X, depth)
	}
	call, ok := x.(*ast.CallExpr)
	if !ok || depth > 6 {
		return false
	}
	id, ok := call.Fun.(*ast.Ident)
	if !ok {
		return false
	}
	if id.Name == "ite" && len(call.Args) == 3 {
		return true
	}
	if sf, _ := tr.eng.contracts.spec(id.Name); sf != nil && !sf.rec && !sf.abstract && sf.body != nil && isBoolType(sf.rtype) && len(call.Args) == len(sf.params) {
		return treeish(tr, sf.body, depth+1)
	}
	return false
}

func isBoolType(t types.Type) bool {
	b, ok := t.Underlying().(*types.Basic)
	return ok && b.Kind() == types.Bool
}

// tree evaluates the Boolean expression x to its decision tree.
func (e *specEnv) tree(x ast.Expr) *GoalTree {
	if p, ok := x.(*ast.ParenExpr); ok {
		return e.tree(p.X)
	}
	if call, ok := x.(*ast.CallExpr); ok && treeish(e.tr, x, e.depth) {
		id := call.Fun.(*ast.Ident)
		if id.Name == "ite" {
			c := e.evalBool(call.Args[0])
			switch c {
			case "true":
				return e.tree(call.Args[1])
			case "false":
				return e.tree(call.Args[2])
			}
			return &GoalTree{Cond: c, A: e.tree(call.Args[1]), B: e.tree(call.Args[2])}
		}
		sf, _ := e.tr.eng.contracts.spec(id.Name)
		bind := map[string]specVal{}
		for i, v := range e.specArgs(sf, call) {
			if len(v.t) > 40 && !e.tr.openTerm(v.t) {
				v.t = e.tr.define("ta_"+sf.params[i], e.sorts().sortOf(sf.ptypes[i]), v.t)
			}
			bind[sf.params[i]] = v
		}
		n := &specEnv{a: nil, tr: e.tr, pkg: sf.pkg, st: e.st, old: e.old, vars: bind, errs: e.errs, depth: e.depth + 1}
		return n.tree(sf.body)
	}
	leaf := &GoalTree{Leaf: e.evalBool(x)}
	if c, ok := x.(*ast.CallExpr); ok {
		if id, ok := c.Fun.(*ast.Ident); ok && id.Name == "tail" {
			leaf.Tail = true
		}
	}
	if be, ok := x.(*ast.BinaryExpr); ok && be.Op == token.EQL && e.tr.tailFn != "" {
		for _, side := range []ast.Expr{be.X, be.Y} {
			if c, ok := side.(*ast.CallExpr); ok {
				if id, ok := c.Fun.(*ast.Ident); ok && id.Name == e.tr.tailFn {
					leaf.Tail = true
				}
			}
		}
	}
	return leaf
}

// specArgs evaluates and coerces the arguments of a spec function application.
func (e *specEnv) specArgs(sf *SpecFunc, x *ast.CallExpr) []specVal {
	args := make([]specVal, len(x.Args))
	for i := range x.Args {
		v := e.eval(x.Args[i])
		if isInterface(sf.ptypes[i]) && (v.typ == nil || !isInterface(v.typ)) {
			v = specVal{e.toVal(v), sf.ptypes[i]}
		} else if v.typ == nil {
			v = specVal{e.sorts().zero(sf.ptypes[i]), sf.ptypes[i]}
		} else {
			v.typ = sf.ptypes[i]
		}
		args[i] = v
	}
	return args
}

func (e *specEnv) applySpec(sf *SpecFunc, x *ast.CallExpr) specVal {
	tr := e.tr
	if len(x.Args) != len(sf.params) {
		e.errf("%s expects %d arguments", sf.name, len(sf.params))
		return specVal{"0", sf.rtype}
	}
	args := make([]specVal, len(x.Args))
	for i := range x.Args {
		v := e.eval(x.Args[i])
		// coerce to declared parameter type
		if isInterface(sf.ptypes[i]) && (v.typ == nil || !isInterface(v.typ)) {
			v = specVal{e.toVal(v), sf.ptypes[i]}
		} else if v.typ == nil {
			v = specVal{e.sorts().zero(sf.ptypes[i]), sf.ptypes[i]}
		} else {
			v.typ = sf.ptypes[i]
		}
		args[i] = v
	}
	bind := map[string]specVal{}
	for i, p := range sf.params {
		bind[p] = args[i]
	}
	if !sf.rec {
		if e.depth > 20 {
			e.errf("spec expansion too deep at %s", sf.name)
			return specVal{"0", sf.rtype}
		}
		// compile the body once per heap state into an SMT define-fun (sharing instead of
		// textual expansion); the body reads the heap of that state with the parameters symbolic
		if e.inlineSpecs {
			n := &specEnv{a: nil, tr: tr, pkg: sf.pkg, st: e.st, old: e.old, vars: bind, errs: e.errs, depth: e.depth + 1, inlineSpecs: true}
			v := n.eval(sf.body)
			if v.typ == nil {
				v = specVal{e.sorts().zero(sf.rtype), sf.rtype}
			}
			if isInterface(sf.rtype) && !isInterface(v.typ) {
				v = specVal{e.toVal(v), sf.rtype}
			}
			v.typ = sf.rtype
			return v
		}
		key := fmt.Sprintf("%s@%p/%p", sf.name, e.st, e.old)
		fname, ok := tr.specDefs[key]
		if !ok {
			tr.fresh++
			fname = fmt.Sprintf("sf_%s_%d", sf.name, tr.fresh)
			tr.specDefs[key] = fname
			pb := map[string]specVal{}
			var decls []string
			for i, p := range sf.params {
				bv := fmt.Sprintf("p_%s_%s", fname, p)
				pb[p] = specVal{bv, sf.ptypes[i]}
				decls = append(decls, fmt.Sprintf("(%s %s)", bv, e.sorts().sortOf(sf.ptypes[i])))
				tr.boundVars = append(tr.boundVars, bv)
			}
			n := &specEnv{a: nil, tr: tr, pkg: sf.pkg, st: e.st, old: e.old, vars: pb, errs: e.errs, depth: e.depth + 1}
			v := n.eval(sf.body)
			tr.boundVars = tr.boundVars[:len(tr.boundVars)-len(sf.params)]
			bt := v.t
			if v.typ == nil {
				bt = e.sorts().zero(sf.rtype)
			} else if isInterface(sf.rtype) && !isInterface(v.typ) {
				bt = e.toVal(v)
			}
			tr.declare(fmt.Sprintf("(define-fun %s (%s) %s %s)", fname, strings.Join(decls, " "), e.sorts().sortOf(sf.rtype), bt))
		}
		ts := make([]Term, len(args))
		for i, a := range args {
			ts[i] = a.t
		}
		if len(ts) == 0 {
			return specVal{fname, sf.rtype}
		}
		return specVal{app(fname, ts...), sf.rtype}
	}
	// recursive: uninterpreted symbol
	fname := "spec_" + sf.name
	psorts := make([]string, len(sf.ptypes))
	for i, t := range sf.ptypes {
		psorts[i] = e.sorts().sortOf(t)
	}
	rsort := e.sorts().sortOf(sf.rtype)
	tr.eng.declareOnce(tr, fname, fmt.Sprintf("(declare-fun %s (%s) %s)", fname, strings.Join(psorts, " "), rsort))
	ts := make([]Term, len(args))
	for i, a := range args {
		ts[i] = a.t
	}
	t := app(fname, ts...)
	if sf.abstract && sf.replayBody != nil && !tr.openTerm(t) && e.depth < 1 && !tr.unfolded["hint:"+t] {
		tr.unfolded["hint:"+t] = true
		n := &specEnv{a: nil, tr: tr, pkg: sf.pkg, st: e.st, old: e.old, vars: bind, errs: e.errs, depth: e.depth + 1}
		body := n.eval(sf.replayBody)
		tr.callHints = append(tr.callHints, Eq(t, body.t))
	}
	// unfolding instance for closed applications (once per distinct application)
	if !sf.abstract && !tr.openTerm(t) && e.depth < 2 {
		pre := "unfolding:" + t
		if !tr.unfolded[pre] {
			tr.unfolded[pre] = true // guards against re-entrant unfolding of the same application
			n := &specEnv{a: nil, tr: tr, pkg: sf.pkg, st: e.st, old: e.old, vars: bind, errs: e.errs, depth: e.depth + 1}
			body := n.eval(sf.body)
			bt := body.t
			if isInterface(sf.rtype) && body.typ != nil && !isInterface(body.typ) {
				bt = e.toVal(body)
			}
			delete(tr.unfolded, pre)
			key := "unfold:" + t + "=" + bt
			if !tr.unfolded[key] {
				tr.unfolded[key] = true
				tr.assume(Eq(t, bt), "unfolding of "+sf.name)
			}
		}
	}
	return specVal{t, sf.rtype}
}

// ---------------------------------------------------------------------------
// local name resolution for invariants and posts

func (a *Act) lookupLocal(e *specEnv, name string) (specVal, bool) {
	name = strings.TrimPrefix(name, "_S_")
	fn := a.fn
	if e.li != nil || e.preferLocals {
		if v, ok := a.lookupLocalVar(e, name); ok {
			return v, true
		}
	}
	// contract parameter names (positional)
	if a.contract != nil {
		for i, p := range a.contract.params {
			if p == name && i < len(fn.Params) {
				return specVal{a.val(fn.Params[i]), fn.Params[i].Type()}, true
			}
		}
	}
	for _, p := range fn.Params {
		if p.Name() == name {
			return specVal{a.val(p), p.Type()}, true
		}
	}
	if v, ok := a.lookupLocalVar(e, name); ok {
		return v, true
	}
	// package-level variables
	root := fn
	for root.Parent() != nil {
		root = root.Parent()
	}
	if root.Pkg != nil {
		if g, ok := root.Pkg.Members[name].(*ssa.Global); ok {
			pt := g.Type().Underlying().(*types.Pointer).Elem()
			lv := &LV{kind: lvCell, typ: pt, addr: a.tr.eng.globalAddr(g)}
			return specVal{a.load(e.st, lv), pt}, true
		}
	}
	return specVal{}, false
}

func (a *Act) lookupLocalVar(e *specEnv, name string) (specVal, bool) {
	fn := a.fn
	for _, fv := range fn.FreeVars {
		if fv.Name() == name {
			pt := fv.Type().Underlying().(*types.Pointer).Elem()
			lv := a.lvOf(e.st, fv)
			return specVal{a.load(e.st, lv), pt}, true
		}
	}
	// loop phis
	if e.li != nil {
		for _, instr := range e.li.header.Instrs {
			phi, ok := instr.(*ssa.Phi)
			if !ok {
				break
			}
			if phi.Comment == name {
				if t, ok := a.phiOverride[phi]; ok {
					return specVal{t, phi.Type()}, true
				}
				return specVal{a.val(phi), phi.Type()}, true
			}
		}
	}
	// address-taken locals: the declaration that dominates the point of interest
	var bestAl *ssa.Alloc
	for v := range a.lvs {
		al, ok := v.(*ssa.Alloc)
		if !ok || al.Comment != name {
			continue
		}
		at := a.curBlock
		if e.li != nil {
			at = e.li.header
		}
		if at != nil && !(al.Block() == at || al.Block().Dominates(at)) {
			continue
		}
		if bestAl == nil || bestAl.Block().Dominates(al.Block()) && bestAl != al {
			bestAl = al
		}
	}
	// (an address-taken variable competes with later plain definitions of the same name: the
	// innermost declaration on the way to the point of interest wins; decided below)
	// debug references: last definition of the name that is already translated and
	// dominates the point of interest
	var best ssa.Value
	var bestBlock *ssa.BasicBlock
	var bestObj types.Object
	bestIdx := 0
	for _, b := range fn.Blocks {
		for _, in := range b.Instrs {
			dr, ok := in.(*ssa.DebugRef)
			if !ok || dr.IsAddr {
				continue
			}
			id, ok := dr.Expr.(*ast.Ident)
			if !ok || id.Name != name {
				continue
			}
			if obj := dr.Object(); obj != nil && obj.Pkg() != nil && obj.Parent() == obj.Pkg().Scope() {
				continue // a package-level variable, not a local
			}
			if _, defined := a.vals[dr.X]; !defined {
				if _, isConst := dr.X.(*ssa.Const); !isConst {
					continue
				}
			}
			if e.li != nil {
				if phi, isPhi := dr.X.(*ssa.Phi); isPhi && phi.Block() == e.li.header {
					continue
				}
				if ins, ok := dr.X.(ssa.Instruction); ok && !(ins.Block() != e.li.header && ins.Block().Dominates(e.li.header)) {
					continue
				}
				// the reference itself (the assignment or use that names the variable) must lie
				// on the way to the loop head
				if !(b != e.li.header && b.Dominates(e.li.header)) {
					continue
				}
			} else if a.curBlock != nil {
				if ins, ok := dr.X.(ssa.Instruction); ok && !(ins.Block() == a.curBlock || ins.Block().Dominates(a.curBlock)) {
					continue
				}
				// ... and on the way to the current point (an assignment `x = v` in another
				// branch names v as x there, not here)
				if !(b == a.curBlock || b.Dominates(a.curBlock)) {
					continue
				}
			}
			if best == nil || laterPoint(b, instrIndex(dr), bestBlock, bestIdx) {
				best, bestBlock, bestIdx = dr.X, b, instrIndex(dr)
				bestObj = dr.Object()
			}
		}
	}
	// a phi that merges assignments to the variable (its comment is the variable's name) holds
	// the value from the start of its block on
	for _, b := range fn.Blocks {
		for _, in := range b.Instrs {
			phi, ok := in.(*ssa.Phi)
			if !ok {
				break
			}
			if phi.Comment != name {
				continue
			}
			if _, defined := a.vals[phi]; !defined {
				continue
			}
			if e.li != nil {
				if !(b != e.li.header && b.Dominates(e.li.header)) {
					continue
				}
			} else if a.curBlock != nil {
				if !(b == a.curBlock || b.Dominates(a.curBlock)) {
					continue
				}
			}
			if best == nil || laterPoint(b, -1, bestBlock, bestIdx) {
				best, bestBlock, bestIdx = phi, b, -1
				// (a phi carries the name only; it is taken for the same variable as the latest
				// plain reference seen so far)
			}
		}
	}
	if bestAl != nil {
		// the alloc is the variable unless a plain (SSA-register) variable of the same name is
		// declared or assigned later on the way here
		// which source variable is the alloc?
		var allocObj types.Object
		for _, b := range fn.Blocks {
			for _, in := range b.Instrs {
				if dr, ok := in.(*ssa.DebugRef); ok && dr.IsAddr && dr.X == ssa.Value(bestAl) {
					allocObj = dr.Object()
				}
			}
		}
		if allocObj == nil {
			// named results and parameters that are only captured by closures have no address
			// reference in this function: take the signature's variable of that name
			sig := fn.Signature
			for i := 0; i < sig.Results().Len(); i++ {
				if sig.Results().At(i).Name() == name {
					allocObj = sig.Results().At(i)
				}
			}
			for i := 0; i < sig.Params().Len(); i++ {
				if sig.Params().At(i).Name() == name {
					allocObj = sig.Params().At(i)
				}
			}
		}
		shadowed := best != nil && bestObj != nil && allocObj != nil && bestObj != allocObj && laterPoint(bestBlock, bestIdx, bestAl.Block(), instrIndex(bestAl))
		if !shadowed {
			lv := a.lvs[bestAl]
			return specVal{a.load(e.st, lv), lv.typ}, true
		}
		if _, isConst := best.(*ssa.Const); isConst {
			// a zero-value declaration of a shadowing variable: fall through to the search below
		}
	}
	if _, isConst := best.(*ssa.Const); best == nil || isConst {
		// only the declaration (zero value) names the variable on the way here: the builder ties
		// `x := e` to its value at the later uses of x only. Take the latest value tied to the
		// name anywhere whose definition dominates the point of interest.
		var alt ssa.Value
		for _, b := range fn.Blocks {
			for _, in := range b.Instrs {
				dr, ok := in.(*ssa.DebugRef)
				if !ok || dr.IsAddr {
					continue
				}
				id, ok := dr.Expr.(*ast.Ident)
				if !ok || id.Name != name {
					continue
				}
				if _, isC := dr.X.(*ssa.Const); isC {
					continue
				}
				if obj := dr.Object(); obj != nil && obj.Pkg() != nil && obj.Parent() == obj.Pkg().Scope() {
					continue
				}
				if _, defined := a.vals[dr.X]; !defined {
					continue
				}
				ins, isIns := dr.X.(ssa.Instruction)
				if e.li != nil {
					if phi, isPhi := dr.X.(*ssa.Phi); isPhi && phi.Block() == e.li.header {
						continue
					}
					if isIns && !(ins.Block() != e.li.header && ins.Block().Dominates(e.li.header)) {
						continue
					}
				} else if a.curBlock != nil {
					if isIns && !(ins.Block() == a.curBlock || ins.Block().Dominates(a.curBlock)) {
						continue
					}
				}
				if alt == nil || laterDef(dr.X, alt) {
					alt = dr.X
				}
			}
		}
		if alt != nil {
			best = alt
		}
	}
	if best != nil {
		if os.Getenv("GOVC_DBG") != "" {
			fmt.Fprintf(os.Stderr, "lookupLocalVar %s -> %s %T %s\n", name, best.Name(), best, best.String())
		}
		return specVal{a.val(best), best.Type()}, true
	}
	return specVal{}, false
}

func (a *Act) evalSpecBool(st *State, x ast.Expr, li *loopInfo) Term {
	var errs []string
	pkg := a.tr.eng.pkgOf(a.fn)
	e := &specEnv{a: a, tr: a.tr, pkg: pkg, st: st, old: a.entryState, vars: map[string]specVal{}, li: li, errs: &errs, visMode: a.visMode}
	t := e.evalBool(x)
	for _, m := range errs {
		a.tr.specErr(fmt.Sprintf("%s: %s", fnName(a.fn), m))
	}
	return t
}

func (a *Act) evalSpecTerm(st *State, x ast.Expr, li *loopInfo) Term {
	return a.evalSpecInt(st, x, li)
}

func (a *Act) evalSpecInt(st *State, x ast.Expr, li *loopInfo) Term {
	var errs []string
	pkg := a.tr.eng.pkgOf(a.fn)
	e := &specEnv{a: a, tr: a.tr, pkg: pkg, st: st, old: a.entryState, vars: map[string]specVal{}, li: li, errs: &errs}
	v := e.eval(x)
	for _, m := range errs {
		a.tr.specErr(fmt.Sprintf("%s: %s", fnName(a.fn), m))
	}
	return v.t
}

func (tr *Tr) specErr(msg string) {
	for _, m := range tr.specErrs {
		if m == msg {
			return
		}
	}
	tr.specErrs = append(tr.specErrs, msg)
}

// ---------------------------------------------------------------------------
// checking the root function's contract

func (a *Act) bindContract(fc *FuncContract, st *State, args []Term, results []Term, sig *types.Signature, hasRecv bool) map[string]specVal {
	vars := map[string]specVal{}
	var ptypes []types.Type
	if sig.Recv() != nil && hasRecv {
		ptypes = append(ptypes, sig.Recv().Type())
	}
	for i := 0; i < sig.Params().Len(); i++ {
		ptypes = append(ptypes, sig.Params().At(i).Type())
	}
	for i, p := range fc.params {
		if i < len(args) && i < len(ptypes) {
			vars[p] = specVal{args[i], ptypes[i]}
		}
	}
	for i, r := range fc.results {
		if i < len(results) && i < sig.Results().Len() {
			vars[r] = specVal{results[i], sig.Results().At(i).Type()}
		}
	}
	return vars
}

// assumeRequires: at root entry.
func (a *Act) assumeRequires(st *State) {
	fc := a.contract
	if fc == nil {
		return
	}
	var errs []string
	vars := a.bindContract(fc, st, a.args, nil, a.fn.Signature, true)
	e := &specEnv{a: a, tr: a.tr, pkg: fc.pkg, st: st, old: st, vars: vars, errs: &errs}
	for _, c := range fc.requires {
		if !a.tr.wantClause(c) {
			continue
		}
		a.tr.assume(Implies(st.reach, e.evalBool(c.expr)), "requires "+c.text)
	}
	for _, m := range errs {
		a.tr.specErr(fmt.Sprintf("%s (requires): %s", fc.name, m))
	}
}

func (a *Act) atReturn(st *State, in *ssa.Return, results []Term) {
	if a.parent != nil || a.contract == nil {
		return
	}
	fc := a.contract
	var errs []string
	vars := a.bindContract(fc, st, a.args, results, a.fn.Signature, true)
	e := &specEnv{a: a, tr: a.tr, pkg: fc.pkg, st: st, old: a.entryState, vars: vars, errs: &errs}
	for ord, ts := range fc.tailrec {
		if ts.result == nil {
			continue
		}
		for _, li := range a.loops {
			if li.ord == ord && li.headSt != nil && (li.blocks[in.Block()] || li.header.Dominates(in.Block())) {
				outT := e.eval(ts.result.expr).t
				a.tailrecOblige(st, li, outT, "return")
			} else if li.ord == ord && !li.blocks[in.Block()] && !li.header.Dominates(in.Block()) {
				// a return that never reaches the loop: the relation holds from the entry values
				outT := e.eval(ts.result.expr).t
				a.tailrecOblige(st, li, outT, "return-before-loop")
			}
		}
	}
	if fc.panics == "iff" && fc.panicsIff != nil {
		o := a.obligePost(st, in.Pos(), &clause{text: "returns normally only if !(" + fc.panicsIff.text + ")"}, Not(a.tr.panicsIffTerm()))
		_ = o
	}
	for _, c := range fc.ensures {
		if !a.tr.wantClause(c) || c.assumed() {
			continue
		}
		g := e.evalBool(c.expr)
		o := a.obligePost(st, in.Pos(), c, g)
		_ = o
	}
	for _, g := range a.tr.eng.storesFrozen(a.fn) {
		if !a.tr.eng.frozenActive(a.tr.prop) {
			break
		}
		t := g.Type().Underlying().(*types.Pointer).Elem()
		c := a.tr.cellComp(t)
		addr := a.tr.eng.globalAddr(g)
		now := a.tr.read(a.tr.heapOf(st, c), addr)
		was := a.tr.read(a.tr.heapOf(a.entryState, c), addr)
		a.obligePost(st, in.Pos(), &clause{text: "frozen " + g.Name() + " restored"}, Eq(now, was))
	}
	for _, m := range errs {
		a.tr.specErr(fmt.Sprintf("%s (ensures): %s", fc.name, m))
	}
}

func (tr *Tr) wantClause(c *clause) bool {
	// a clause tagged with property ids is proved (and, for invariants, used) only by those properties
	var props []string
	for _, t := range c.tags {
		if strings.HasPrefix(t, "C") {
			props = append(props, t)
		}
	}
	if len(props) > 0 {
		ok := false
		for _, p := range props {
			if p == tr.prop {
				ok = true
			}
		}
		if !ok {
			return false
		}
	}
	if tr.clauseFilter == nil {
		return true
	}
	return tr.clauseFilter(c)
}

func (a *Act) obligePost(st *State, pos token.Pos, c *clause, goal Term) *Obligation {
	if goal == "true" {
		// still count it: trivially discharged
	}
	loc, src := a.srcLine(pos)
	fname := fnName(a.fn)
	base := fmt.Sprintf("%s/post/«%s»@«%s»", fname, normSrc(c.text), normSrc(src))
	a.tr.oblCount[base]++
	name := fmt.Sprintf("%s#%d", base, a.tr.oblCount[base])
	o := &Obligation{Name: name, Kind: "post", Fn: fname, Pos: loc, Src: c.text, Guard: st.reach, Goal: goal}
	a.tr.obls = append(a.tr.obls, o)
	return o
}

// applyContract: modular call.
func (a *Act) applyContract(st *State, callee *ssa.Function, fc *FuncContract, args []Term, pos token.Pos) []Term {
	tr := a.tr
	tr.usedContracts[fc.key] = true
	sig := callee.Signature
	var errs []string
	pre := st.copy()
	vars := a.bindContract(fc, st, args, nil, sig, true)
	e := &specEnv{a: nil, tr: tr, pkg: fc.pkg, st: pre, old: pre, vars: vars, errs: &errs}
	for _, c := range fc.requires {
		if c.assumed() {
			tr.usedAssumed[fc.name+" requires (not checked at call sites): "+c.text] = true
			continue
		}
		if !tr.wantClause(c) {
			continue
		}
		g := e.evalBool(c.expr)
		loc, src := a.srcLine(pos)
		fname := fnName(a.fn)
		base := fmt.Sprintf("%s/pre@%s/«%s»@«%s»", fname, fc.name, normSrc(c.text), normSrc(src))
		tr.oblCount[base]++
		o := &Obligation{Name: fmt.Sprintf("%s#%d", base, tr.oblCount[base]), Kind: "pre", Fn: fname, Pos: loc, Src: c.text, Guard: st.reach, Goal: g}
		tr.obls = append(tr.obls, o)
	}
	// (measures are compared within one package: a recursion cycle through contracts of another
	// package would need a common measure, and none of the functions under contract has one)
	if rc := tr.rootAct.contract; rc != nil && len(rc.decreases) > 0 && len(fc.decreases) > 0 && a.parent == nil && rc.pkg == fc.pkg {
		var callee, caller []Term
		for _, d := range fc.decreases {
			callee = append(callee, e.eval(d.expr).t)
		}
		re := &specEnv{a: tr.rootAct, tr: tr, pkg: rc.pkg, st: tr.rootAct.entryState, old: tr.rootAct.entryState, errs: &errs,
			vars: tr.rootAct.bindContract(rc, st, tr.rootAct.args, nil, tr.root.Signature, true)}
		for _, d := range rc.decreases {
			caller = append(caller, re.eval(d.expr).t)
		}
		a.obligeNamed(st, "decreases", "call "+fc.name, lexLess(callee, caller))
	}
	if tr.lockMode && fc.locksRank != nil && a.parent == nil {
		// lock order: a lock may be taken while another is held only if it ranks strictly lower
		callee := e.eval(fc.locksRank.expr).t
		rc := tr.rootAct.contract
		if rc != nil && rc.holds == nil && rc.locksRank != nil {
			// the root takes a lock of its own rank: a nested acquisition must rank strictly lower
			re := &specEnv{a: tr.rootAct, tr: tr, pkg: rc.pkg, st: tr.rootAct.entryState, old: tr.rootAct.entryState, errs: &errs,
				vars: tr.rootAct.bindContract(rc, st, tr.rootAct.args, nil, tr.root.Signature, true)}
			own := re.eval(rc.locksRank.expr).t
			now := tr.read(tr.heapOf(st, tr.lockCount()))
			entry := tr.read(tr.heapOf(tr.rootAct.entryState, tr.lockCount()))
			a.obligeNamed(st, "lock/order", "call "+fc.name, Or(Eq(now, entry), app("<", callee, own)))
		} else if rc != nil && rc.holds != nil {
			re := &specEnv{a: tr.rootAct, tr: tr, pkg: rc.pkg, st: tr.rootAct.entryState, old: tr.rootAct.entryState, errs: &errs,
				vars: tr.rootAct.bindContract(rc, st, tr.rootAct.args, nil, tr.root.Signature, true)}
			held := re.eval(rc.holds.expr).t
			a.obligeNamed(st, "lock/order", "call "+fc.name, app("<", callee, held))
		} else {
			now := tr.read(tr.heapOf(st, tr.lockCount()))
			entry := tr.read(tr.heapOf(tr.rootAct.entryState, tr.lockCount()))
			a.obligeNamed(st, "lock/order", "call "+fc.name+" (no lock of this function may be held)", Eq(now, entry))
		}
	}
	if fc.panics == "may" {
		ok := tr.freshConst("nopanic_"+lastName(fc.name), "Bool")
		a.mayPanic(st, "call", pos, ok, tr.freshConst("panicval", "Val"))
	}
	if fc.panics == "iff" && fc.panicsIff != nil {
		a.mayPanic(st, "call", pos, Not(e.evalBool(fc.panicsIff.expr)), tr.freshConst("panicval", "Val"))
	}
	// results and frame
	results := make([]Term, sig.Results().Len())
	for i := range results {
		rt := sig.Results().At(i).Type()
		results[i] = tr.freshConst("r_"+lastName(fc.name), a.sortOf(rt))
	}
	a.frameCallee = callee
	a.frameForCall(st, fc, vars, pre)
	a.frameCallee = nil
	for i := range results {
		a.assumeWF(st, sig.Results().At(i).Type(), results[i], 1)
	}
	post := &specEnv{a: nil, tr: tr, pkg: fc.pkg, st: st, old: pre, errs: &errs,
		vars: a.bindContract(fc, st, args, results, sig, true)}
	for _, c := range fc.ensures {
		if c.hasTag("local") {
			// proved at every return of the body over its local names; says nothing to callers
			continue
		}
		if c.assumed() {
			tr.usedAssumed[fc.name+": "+c.text] = true
		}
		tr.assume(Implies(st.reach, post.evalBool(c.expr)), fmt.Sprintf("ensures of %s: %s", fc.name, c.text))
	}
	for _, c := range fc.hints {
		tr.callHints = append(tr.callHints, Implies(st.reach, post.evalBool(c.expr)))
	}
	for _, m := range errs {
		tr.specErr(fmt.Sprintf("%s (call from %s): %s", fc.name, fnName(a.fn), m))
	}
	return results
}

func (c *clause) hasTag(tag string) bool {
	for _, t := range c.tags {
		if t == tag {
			return true
		}
	}
	return false
}

// assumed: the clause is tagged @assume: used by callers, not proved on the body.
func (c *clause) assumed() bool {
	for _, t := range c.tags {
		if t == "assume" {
			return true
		}
	}
	return false
}

// frameForCall updates the heap for a modular call according to the assigns clauses.
func (a *Act) frameForCall(st *State, fc *FuncContract, vars map[string]specVal, pre *State) {
	tr := a.tr
	now := st.alloc
	var inferred map[string]bool
	inferredAll := true
	if !fc.explicitFrame() && a.frameCallee != nil {
		inferred, inferredAll = a.calleeMods(a.frameCallee)
	}
	mode := "default"
	var compNames []string
	for _, as := range fc.assigns {
		switch {
		case as == "nothing":
			mode = "nothing"
		case as == "cells":
			mode = "cells"
		case strings.HasPrefix(as, "comp:"):
			if mode == "default" {
				mode = "listed"
			}
			compNames = append(compNames, strings.TrimPrefix(as, "comp:"))
		case strings.HasPrefix(as, "ghost:"):
			if mode == "default" {
				mode = "listed"
			}
			compNames = append(compNames, as)
			tr.comp(as, nil, "Int", false)
		}
	}
	if fc.pure {
		return
	}
	listed := map[string]bool{}
	for _, n := range compNames {
		listed[n] = true
	}
	preserved := map[string]bool{}
	for _, n := range fc.preserves {
		preserved[strings.TrimPrefix(n, "comp:")] = true
	}
	preSt := st.copy()
	keepOld := func(key []Term) Term { return app("<=", key[0], now) }
	st.prov = &prov{kind: "custom", prev: preSt, hint: "call", resolve: func(c *Component, prev *HeapV) *HeapV {
		cn := c.name
		switch {
		case c.local:
			return prev
		case strings.HasPrefix(cn, "ghost:lock") && !listed[cn]:
			return prev
		case immutableCells[cn] && !listed[cn]:
			return tr.heapFrame(prev, keepOld, "call_"+cn)
		case preserved[cn] && len(c.keySorts) > 0:
			return tr.heapFrame(prev, keepOld, "call_"+cn)
		case preserved[cn]:
			return prev
		case c.value:
			// callee may only allocate (C02 frame, checked on the callee)
			return tr.heapFrame(prev, keepOld, "call_"+cn)
		case mode == "nothing" && len(c.keySorts) == 0:
			return prev
		case mode == "nothing":
			return tr.heapFrame(prev, keepOld, "call_"+cn)
		case len(c.keySorts) == 0:
			if (mode == "default" && (inferredAll || inferred[cn])) || listed[cn] {
				return tr.newHeapBase(c, "call_"+cn)
			}
			return prev
		case mode == "listed" && !listed[cn]:
			return tr.heapFrame(prev, keepOld, "call_"+cn)
		case mode == "default" && !inferredAll && !inferred[cn]:
			return tr.heapFrame(prev, keepOld, "call_"+cn)
		default:
			if keep := preSt.keepOwned(cn); keep != nil {
				return tr.heapFrame(prev, keep, "call_"+cn)
			}
			return tr.newHeapBase(c, "call_"+cn)
		}
	}}
	for name := range st.heap {
		if c := tr.comps[name]; c != nil && !c.local {
			delete(st.heap, name)
		}
	}
	if fc.changesWorld {
		wc := tr.comp("ghost:W", nil, "World", false)
		tr.heapOf(st, wc) // resolve through the frame first
		st.heap[wc.name] = tr.newHeapBase(wc, "world_after_"+lastName(fc.name))
	}
	na := tr.freshConst("alloc_call", "Int")
	tr.assume(Implies(st.reach, app(">=", na, now)), "allocation counter monotone")
	st.alloc = na
}

func (fc *FuncContract) mods(tr *Tr, mods map[string]bool) bool {
	if fc.pure {
		return false
	}
	if fc.changesWorld {
		tr.comp("ghost:W", nil, "World", false)
		mods["ghost:W"] = true
	}
	mode := "default"
	for _, as := range fc.assigns {
		switch {
		case as == "nothing":
			mode = "nothing"
		case strings.HasPrefix(as, "comp:"):
			mode = "listed"
			mods[strings.TrimPrefix(as, "comp:")] = true
		case strings.HasPrefix(as, "ghost:"):
			mode = "listed"
			mods[as] = true
			tr.comp(as, nil, "Int", false)
		}
	}
	// allocation touches value components
	for cn, c := range tr.comps {
		if c.value {
			mods[cn] = true
		}
	}
	if mode == "default" && len(fc.preserves) == 0 {
		return true
	}
	if mode == "default" {
		pres := map[string]bool{}
		for _, n := range fc.preserves {
			pres[strings.TrimPrefix(n, "comp:")] = true
		}
		for cn, c := range tr.comps {
			if !c.local && !pres[cn] {
				mods[cn] = true
			}
		}
		return false
	}
	if mode == "nothing" {
		for cn, c := range tr.comps {
			if !c.local && !c.value {
				mods[cn] = true // fresh allocations in these components
			}
		}
	}
	return false
}

func (a *Act) applyFieldContract(st *State, fc *FuncContract, fv Term, args []Term, pos token.Pos, c *ssa.CallCommon) []Term {
	tr := a.tr
	tr.usedContracts["field:"+fc.key] = true
	sig := c.Value.Type().Underlying().(*types.Signature)
	var errs []string
	pre := st.copy()
	vars := a.bindContract(fc, st, args, nil, sig, false)
	vars["self"] = specVal{fv, tInt}
	e := &specEnv{a: nil, tr: tr, pkg: fc.pkg, st: pre, old: pre, vars: vars, errs: &errs}
	for _, cl := range fc.requires {
		g := e.evalBool(cl.expr)
		loc, src := a.srcLine(pos)
		fname := fnName(a.fn)
		base := fmt.Sprintf("%s/pre@%s/«%s»@«%s»", fname, fc.name, normSrc(cl.text), normSrc(src))
		tr.oblCount[base]++
		o := &Obligation{Name: fmt.Sprintf("%s#%d", base, tr.oblCount[base]), Kind: "pre", Fn: fname, Pos: loc, Src: cl.text, Guard: st.reach, Goal: g}
		tr.obls = append(tr.obls, o)
	}
	if fc.panics == "may" {
		ok := tr.freshConst("nopanic_"+lastName(fc.name), "Bool")
		a.mayPanic(st, "call", pos, ok, tr.freshConst("panicval", "Val"))
	}
	results := make([]Term, sig.Results().Len())
	for i := range results {
		rt := sig.Results().At(i).Type()
		results[i] = tr.freshConst("r_"+lastName(fc.name), a.sortOf(rt))
	}
	a.frameForCall(st, fc, vars, pre)
	for i := range results {
		a.assumeWF(st, sig.Results().At(i).Type(), results[i], 1)
	}
	pvars := a.bindContract(fc, st, args, results, sig, false)
	pvars["self"] = specVal{fv, tInt}
	post := &specEnv{a: nil, tr: tr, pkg: fc.pkg, st: st, old: pre, errs: &errs, vars: pvars}
	for _, cl := range fc.ensures {
		tr.assume(Implies(st.reach, post.evalBool(cl.expr)), fmt.Sprintf("ensures of %s: %s", fc.name, cl.text))
	}
	for _, m := range errs {
		tr.specErr(fmt.Sprintf("%s (call from %s): %s", fc.name, fnName(a.fn), m))
	}
	tr.eng.noteFieldCall(a, st, fc, fv, args, results, pos)
	return results
}

func (a *Act) tcoBackEdge(st *State, li *loopInfo) {
	// implemented with the EVAL refinement (evalspec.go)
	a.tr.eng.tcoBackEdge(a, st, li)
}

// valOKDef: the data invariant of interface values, from the `invariant` clauses.
func (tr *Tr) valOKDef() string {
	if tr.valOKText != "" {
		return tr.valOKText
	}
	sorts := tr.eng.sorts
	var conds []Term
	var errs []string
	for _, inv := range tr.eng.contracts.invs {
		key := typeKey(inv.typ)
		c, ok := sorts.ctors[key]
		if !ok {
			continue
		}
		tr.boundVars = append(tr.boundVars, "vv_inv")
		e := &specEnv{tr: tr, pkg: inv.pkg, vars: map[string]specVal{inv.param: {app(c.sel, "vv_inv"), inv.typ}}, errs: &errs, st: tr.rootAct.entryState, old: tr.rootAct.entryState, inlineSpecs: true}
		body := e.evalBool(inv.body)
		tr.boundVars = tr.boundVars[:len(tr.boundVars)-1]
		conds = append(conds, fmt.Sprintf("(=> ((_ is %s) vv_inv) %s)", c.ctor, body))
	}
	for _, m := range errs {
		tr.specErr("invariant: " + m)
	}
	tr.valOKText = fmt.Sprintf("(define-fun valOK ((vv_inv Val)) Bool %s)\n", And(conds...))
	return tr.valOKText
}

// typeInvFor: invariant of concrete type t applied to term x ("true" if none).
func (tr *Tr) typeInvFor(t types.Type, x Term, st *State) Term {
	var errs []string
	out := []Term{}
	for _, inv := range tr.eng.contracts.invs {
		if !types.Identical(inv.typ, t) {
			continue
		}
		e := &specEnv{tr: tr, pkg: inv.pkg, vars: map[string]specVal{inv.param: {x, inv.typ}}, errs: &errs, st: st, old: st}
		out = append(out, e.evalBool(inv.body))
	}
	for _, m := range errs {
		tr.specErr("invariant: " + m)
	}
	return And(out...)
}

func (e *specEnv) constVal(c *types.Const) specVal {
	switch c.Val().Kind() {
	case constant.Int:
		n, _ := constant.Int64Val(c.Val())
		return specVal{IntLit(n), tInt}
	case constant.String:
		return specVal{StrLit(constant.StringVal(c.Val())), tString}
	case constant.Bool:
		if constant.BoolVal(c.Val()) {
			return specVal{"true", tBool}
		}
		return specVal{"false", tBool}
	}
	e.errf("unsupported constant %s", c.Name())
	return specVal{"0", tInt}
}

// laterDef: definition x comes after y on every path (y's block dominates x's, or same block later).
// laterPoint: program point (xb, xi) comes after (yb, yi) on every path to it (same block later,
// or y's block dominates x's).
func laterPoint(xb *ssa.BasicBlock, xi int, yb *ssa.BasicBlock, yi int) bool {
	if yb == nil {
		return true
	}
	if xb == yb {
		return xi > yi
	}
	return yb.Dominates(xb)
}

func laterDef(x, y ssa.Value) bool {
	xi, ok1 := x.(ssa.Instruction)
	yi, ok2 := y.(ssa.Instruction)
	if !ok1 {
		return false // parameters, constants: earliest
	}
	if !ok2 {
		return true
	}
	if xi.Block() == yi.Block() {
		_, xPhi := x.(*ssa.Phi)
		_, yPhi := y.(*ssa.Phi)
		if xPhi != yPhi {
			return yPhi
		}
		return instrIndex(xi) > instrIndex(yi)
	}
	return yi.Block().Dominates(xi.Block())
}
